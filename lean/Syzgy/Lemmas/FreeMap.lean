import Syzgy.Model.FreeMap
/-!
Free map (freemap.go) in canonical form.

`Good fm`: non-empty regions, strictly increasing with a gap between neighbours — i.e. the regions
are exactly the *maximal* runs of the points they cover. Two `Good` lists with the same coverage are
equal (`good_unique`), so "the free map after an operation equals the maximal free runs of the new
file" can be proved by comparing coverages only.
-/
namespace Syzgy

def Sp.has (s : Sp) (p : Nat) : Prop := s.start ≤ p ∧ p < s.stop

def covers (fm : List Sp) (p : Nat) : Prop := ∃ s ∈ fm, s.has p

def Good (fm : List Sp) : Prop := (∀ s ∈ fm, 0 < s.len) ∧ fm.Pairwise (fun a b => a.stop < b.start)

/-- sorted, non-empty, non-overlapping (touching allowed) -/
def Weak (fm : List Sp) : Prop := (∀ s ∈ fm, 0 < s.len) ∧ fm.Pairwise (fun a b => a.stop ≤ b.start)

theorem good_cons {a : Sp} {r : List Sp} (h : Good (a :: r)) :
    0 < a.len ∧ (∀ b ∈ r, a.stop < b.start) ∧ Good r := by
  obtain ⟨h1, h2⟩ := h
  rw [List.pairwise_cons] at h2
  exact ⟨h1 a (by simp), h2.1, fun s hs => h1 s (by simp [hs]), h2.2⟩

theorem Good.weak {fm : List Sp} (h : Good fm) : Weak fm :=
  ⟨h.1, h.2.imp (fun hab => Nat.le_of_lt hab)⟩

theorem not_covers_below {a : Sp} {r : List Sp} (h : Good (a :: r)) (p : Nat) (hp : p < a.start) :
    ¬ covers (a :: r) p := by
  obtain ⟨ha, hr, _⟩ := good_cons h
  rintro ⟨s, hs, hps⟩
  rcases List.mem_cons.mp hs with rfl | hs
  · exact absurd hps.1 (by omega)
  · have := hr s hs; simp [Sp.has, Sp.stop] at *; omega

theorem not_covers_stop {a : Sp} {r : List Sp} (h : Good (a :: r)) : ¬ covers (a :: r) a.stop := by
  obtain ⟨ha, hr, _⟩ := good_cons h
  rintro ⟨s, hs, hps⟩
  rcases List.mem_cons.mp hs with rfl | hs
  · simp [Sp.has] at hps
  · have := hr s hs; simp [Sp.has, Sp.stop] at *; omega

theorem covers_head {a : Sp} {r : List Sp} (p : Nat) (hp : a.has p) : covers (a :: r) p := ⟨a, by simp, hp⟩

/-- canonical form: `Good` lists are determined by their coverage -/
theorem good_unique (x y : List Sp) (hx : Good x) (hy : Good y)
    (hc : ∀ p, covers x p ↔ covers y p) : x = y := by
  induction x generalizing y with
  | nil =>
    cases y with
    | nil => rfl
    | cons b s =>
      have hb := (good_cons hy).1
      have : covers (b :: s) b.start := covers_head _ (by simp [Sp.has, Sp.stop]; omega)
      have := (hc b.start).mpr this
      simp [covers] at this
  | cons a r ih =>
    cases y with
    | nil =>
      have ha := (good_cons hx).1
      have : covers (a :: r) a.start := covers_head _ (by simp [Sp.has, Sp.stop]; omega)
      have := (hc a.start).mp this
      simp [covers] at this
    | cons b s =>
      obtain ⟨ha, har, hr⟩ := good_cons hx
      obtain ⟨hb, hbs, hs⟩ := good_cons hy
      have hstart : a.start = b.start := by
        have c1 : covers (b :: s) a.start :=
          (hc _).mp (covers_head _ (by simp [Sp.has, Sp.stop]; omega))
        have c2 : covers (a :: r) b.start :=
          (hc _).mpr (covers_head _ (by simp [Sp.has, Sp.stop]; omega))
        have n1 := not_covers_below hy a.start
        have n2 := not_covers_below hx b.start
        by_cases h1 : a.start < b.start
        · exact absurd c1 (n1 h1)
        · by_cases h2 : b.start < a.start
          · exact absurd c2 (n2 h2)
          · omega
      have hstop : a.stop = b.stop := by
        by_cases h1 : a.stop < b.stop
        · have : covers (b :: s) a.stop := covers_head _ (by simp [Sp.has, Sp.stop] at *; omega)
          exact absurd ((hc _).mpr this) (not_covers_stop hx)
        · by_cases h2 : b.stop < a.stop
          · have : covers (a :: r) b.stop := covers_head _ (by simp [Sp.has, Sp.stop] at *; omega)
            exact absurd ((hc _).mp this) (not_covers_stop hy)
          · omega
      have hab : a = b := by
        cases a; cases b; simp [Sp.stop] at *; omega
      subst hab
      congr 1
      apply ih s hr hs
      intro p
      constructor
      · rintro ⟨t, ht, hpt⟩
        have : covers (a :: s) p := (hc p).mp ⟨t, by simp [ht], hpt⟩
        obtain ⟨u, hu, hpu⟩ := this
        rcases List.mem_cons.mp hu with rfl | hu
        · have := har t ht; simp [Sp.has, Sp.stop] at *; omega
        · exact ⟨u, hu, hpu⟩
      · rintro ⟨t, ht, hpt⟩
        have : covers (a :: r) p := (hc p).mpr ⟨t, by simp [ht], hpt⟩
        obtain ⟨u, hu, hpu⟩ := this
        rcases List.mem_cons.mp hu with rfl | hu
        · have := hbs t ht; simp [Sp.has, Sp.stop] at *; omega
        · exact ⟨u, hu, hpu⟩

theorem weak_cons {a : Sp} {r : List Sp} (h : Weak (a :: r)) :
    0 < a.len ∧ (∀ b ∈ r, a.stop ≤ b.start) ∧ Weak r := by
  obtain ⟨h1, h2⟩ := h
  rw [List.pairwise_cons] at h2
  exact ⟨h1 a (by simp), h2.1, fun s hs => h1 s (by simp [hs]), h2.2⟩

theorem weak_merge_head {a b : Sp} {r : List Sp} (h : Weak (a :: b :: r)) (ht : ¬ a.stop < b.start) :
    Weak ({ start := a.start, len := b.stop - a.start } :: r) ∧
    ∀ p, covers ({ start := a.start, len := b.stop - a.start } :: r) p ↔ covers (a :: b :: r) p := by
  obtain ⟨ha, har, hbr⟩ := weak_cons h
  obtain ⟨hb, hbr', hr⟩ := weak_cons hbr
  have hab := har b (by simp)
  have heq : a.stop = b.start := by omega
  refine ⟨⟨?_, ?_⟩, ?_⟩
  · intro s hs
    rcases List.mem_cons.mp hs with rfl | hs
    · simp [Sp.stop] at *; omega
    · exact hr.1 s hs
  · rw [List.pairwise_cons]
    refine ⟨?_, hr.2⟩
    intro c hc
    have := hbr' c hc
    simp [Sp.stop] at *; omega
  · intro p
    simp only [covers, List.mem_cons, exists_eq_or_imp, Sp.has, Sp.stop] at *
    constructor
    · rintro (h1 | h1)
      · by_cases hp : p < a.start + a.len
        · exact Or.inl ⟨h1.1, hp⟩
        · exact Or.inr (Or.inl ⟨by omega, by omega⟩)
      · exact Or.inr (Or.inr h1)
    · rintro (h1 | h1 | h1)
      · exact Or.inl ⟨h1.1, by omega⟩
      · exact Or.inl ⟨by omega, by omega⟩
      · exact Or.inr h1

/-- Go's merge loop turns a sorted non-overlapping list into the canonical form with the same coverage -/
theorem mergePass_spec (n : Nat) : ∀ l : List Sp, l.length ≤ n → Weak l →
    Good (mergePass l) ∧ (∀ p, covers (mergePass l) p ↔ covers l p) ∧
    (∀ a r, l = a :: r → ∃ a' r', mergePass l = a' :: r' ∧ a'.start = a.start) := by
  induction n with
  | zero =>
    intro l hl _
    have : l = [] := List.eq_nil_of_length_eq_zero (by omega)
    subst this
    simp [mergePass, Good]
  | succ n ih =>
    intro l hl hw
    match l, hl, hw with
    | [], _, _ => simp [mergePass, Good]
    | [a], _, hw =>
      have hm : mergePass [a] = [a] := by simp [mergePass]
      rw [hm]
      exact ⟨⟨by simpa using hw.1, by simp⟩, fun p => Iff.rfl, by
        intro a' r' h; simp at h; exact ⟨a, [], rfl, by rw [h.1]⟩⟩
    | a :: b :: r, hl, hw =>
      obtain ⟨ha, har, hbr⟩ := weak_cons hw
      rw [mergePass]
      split
      · rename_i hlt
        obtain ⟨hg, hc, hh⟩ := ih (b :: r) (by simp at hl ⊢; omega) hbr
        obtain ⟨b', r', hm, hbs⟩ := hh b r rfl
        refine ⟨⟨?_, ?_⟩, ?_, ?_⟩
        · intro s hs
          rcases List.mem_cons.mp hs with rfl | hs
          · exact ha
          · exact hg.1 s hs
        · rw [List.pairwise_cons]
          refine ⟨?_, hg.2⟩
          intro c hc'
          rw [hm] at hc' hg
          rcases List.mem_cons.mp hc' with rfl | hc'
          · omega
          · have := (List.pairwise_cons.mp hg.2).1 c hc'
            simp [Sp.stop] at *; omega
        · intro p
          simp only [covers, List.mem_cons, exists_eq_or_imp] at hc ⊢
          rw [← hc p]
        · intro a' r'' h; simp at h; exact ⟨a, _, rfl, by rw [h.1]⟩
      · rename_i hnlt
        obtain ⟨hw', hc'⟩ := weak_merge_head hw hnlt
        obtain ⟨hg, hc, hh⟩ := ih _ (by simp at hl ⊢; omega) hw'
        refine ⟨hg, fun p => (hc p).trans (hc' p), ?_⟩
        intro a' r'' h
        simp at h
        obtain ⟨x, y, hm, hs⟩ := hh _ r rfl
        exact ⟨x, y, hm, by rw [hs, ← h.1]⟩

/-! ## sorting a disjoint family -/

/-- two regions do not overlap -/
def Sp.disj (a b : Sp) : Prop := a.stop ≤ b.start ∨ b.stop ≤ a.start

theorem insertByStart_perm (x : Sp) (l : List Sp) : (insertByStart x l).Perm (x :: l) := by
  induction l with
  | nil => exact List.Perm.refl _
  | cons a r ih =>
    simp only [insertByStart]; split
    · exact List.Perm.refl _
    · exact (List.Perm.cons a ih).trans (List.Perm.swap x a r)

/-- inserting a non-empty region disjoint from every region of a `Weak` list keeps it `Weak` -/
theorem insertByStart_weak (x : Sp) (l : List Sp) (hx : 0 < x.len) (hl : Weak l) (hd : ∀ s ∈ l, x.disj s) :
    Weak (insertByStart x l) := by
  induction l with
  | nil => exact ⟨by simpa [insertByStart] using hx, by simp [insertByStart]⟩
  | cons a r ih =>
    obtain ⟨ha, har, hr⟩ := weak_cons hl
    simp only [insertByStart]
    split
    · rename_i hle
      refine ⟨?_, ?_⟩
      · intro s hs
        rcases List.mem_cons.mp hs with rfl | hs
        · exact hx
        · exact hl.1 s hs
      · rw [List.pairwise_cons]
        refine ⟨?_, hl.2⟩
        intro c hc
        -- x starts at or before a; disjoint from c; c starts at or after a
        have hdc := hd c hc
        rcases List.mem_cons.mp hc with rfl | hc'
        · rcases hdc with h | h
          · exact h
          · simp [Sp.stop] at *; omega
        · have := har c hc'
          rcases hdc with h | h
          · exact h
          · simp [Sp.stop] at *; omega
    · rename_i hnle
      have hwr := ih hr (fun s hs => hd s (by simp [hs]))
      refine ⟨?_, ?_⟩
      · intro s hs
        rcases List.mem_cons.mp hs with rfl | hs
        · exact ha
        · exact hwr.1 s hs
      · rw [List.pairwise_cons]
        refine ⟨?_, hwr.2⟩
        intro c hc
        rcases List.mem_cons.mp ((insertByStart_perm x r).mem_iff.mp hc) with rfl | hc'
        · rcases hd a (by simp) with h | h
          · simp [Sp.stop] at *; omega
          · exact h
        · exact har c hc'

theorem covers_perm {l1 l2 : List Sp} (h : l1.Perm l2) (p : Nat) : covers l1 p ↔ covers l2 p := by
  simp only [covers, h.mem_iff]

theorem sortByStart_weak (l : List Sp) (hne : ∀ s ∈ l, 0 < s.len) (hd : l.Pairwise Sp.disj) :
    Weak (sortByStart l) ∧ (sortByStart l).Perm l := by
  induction l with
  | nil => exact ⟨⟨by simp [sortByStart], by simp [sortByStart]⟩, List.Perm.refl _⟩
  | cons a r ih =>
    rw [List.pairwise_cons] at hd
    obtain ⟨hw, hp⟩ := ih (fun s hs => hne s (by simp [hs])) hd.2
    have : sortByStart (a :: r) = insertByStart a (sortByStart r) := rfl
    rw [this]
    refine ⟨insertByStart_weak a _ (hne a (by simp)) hw (fun s hs => hd.1 s (hp.mem_iff.mp hs)), ?_⟩
    exact (insertByStart_perm a _).trans (List.Perm.cons a hp)

theorem good_pairwise_disj {fm : List Sp} (h : Good fm) : fm.Pairwise Sp.disj :=
  h.2.imp (fun hab => Or.inl (Nat.le_of_lt hab))

/-- **markFree**: freeing a non-empty region disjoint from a canonical map gives the canonical map
    of the union (neighbours that touch are merged) -/
theorem markFree_spec (fm : List Sp) (start len : Nat) (hg : Good fm) (hlen : 0 < len)
    (hd : ∀ s ∈ fm, s.disj ({ start := start, len := len } : Sp)) :
    Good (markFree fm start len) ∧
    ∀ p, covers (markFree fm start len) p ↔ (covers fm p ∨ (start ≤ p ∧ p < start + len)) := by
  unfold markFree
  rw [if_neg (by omega)]
  have hne : ∀ s ∈ fm ++ [({ start := start, len := len } : Sp)], 0 < s.len := by
    intro s hs
    rcases List.mem_append.mp hs with h | h
    · exact hg.1 s h
    · simp at h; subst h; exact hlen
  have hpd : (fm ++ [({ start := start, len := len } : Sp)]).Pairwise Sp.disj := by
    rw [List.pairwise_append]
    refine ⟨good_pairwise_disj hg, by simp, ?_⟩
    intro a ha b hb
    simp at hb; subst hb
    exact hd a ha
  obtain ⟨hw, hp⟩ := sortByStart_weak _ hne hpd
  obtain ⟨hgood, hcov, _⟩ := mergePass_spec _ _ (Nat.le_refl _) hw
  refine ⟨hgood, fun p => ?_⟩
  rw [hcov p, covers_perm hp p]
  simp only [covers, List.mem_append, List.mem_singleton]
  constructor
  · rintro ⟨s, hs | hs, hps⟩
    · exact Or.inl ⟨s, hs, hps⟩
    · subst hs; exact Or.inr (by simpa [Sp.has, Sp.stop] using hps)
  · rintro (⟨s, hs, hps⟩ | h)
    · exact ⟨s, Or.inl hs, hps⟩
    · exact ⟨_, Or.inr rfl, by simpa [Sp.has, Sp.stop] using h⟩

end Syzgy

namespace Syzgy

theorem getFreeRange_go (rest acc : List Sp) (n : Nat) :
    (getFreeRange.go rest acc n = none ∧ ∀ s ∈ rest, s.len < n) ∨
    (∃ pre s post, rest = pre ++ s :: post ∧ (∀ t ∈ pre, t.len < n) ∧ n ≤ s.len ∧
      getFreeRange.go rest acc n = some (s.start, s.len - n,
        acc.reverse ++ pre ++ (if s.len - n = 0 then post else { start := s.start + n, len := s.len - n } :: post))) := by
  induction rest generalizing acc with
  | nil => left; exact ⟨rfl, by simp⟩
  | cons a r ih =>
    unfold getFreeRange.go
    by_cases hfit : a.len ≥ n
    · right
      refine ⟨[], a, r, rfl, by simp, hfit, ?_⟩
      simp only [hfit, ↓reduceIte, List.append_nil]
      split <;> rfl
    · simp only [hfit, ↓reduceIte]
      rcases ih (a :: acc) with ⟨h1, h2⟩ | ⟨pre, s, post, h1, h2, h3, h4⟩
      · left
        refine ⟨h1, ?_⟩
        intro t ht
        rcases List.mem_cons.mp ht with rfl | ht
        · omega
        · exact h2 t ht
      · right
        refine ⟨a :: pre, s, post, by rw [h1]; rfl, ?_, h3, ?_⟩
        · intro t ht
          rcases List.mem_cons.mp ht with rfl | ht
          · omega
          · exact h2 t ht
        · rw [h4]; simp

/-- **growth clause, model level**: `getFreeRange` fails exactly when no region of the map fits -/
theorem getFreeRange_none_iff (fm : List Sp) (n : Nat) (hn : 0 < n) :
    getFreeRange fm n = none ↔ ∀ s ∈ fm, s.len < n := by
  unfold getFreeRange
  rw [if_neg (by omega)]
  rcases getFreeRange_go fm [] n with ⟨h1, h2⟩ | ⟨pre, s, post, h1, h2, h3, h4⟩
  · exact ⟨fun _ => h2, fun _ => h1⟩
  · constructor
    · intro h; rw [h4] at h; cases h
    · intro h
      have := h s (by rw [h1]; simp)
      omega

theorem good_append_cons {pre post : List Sp} {s : Sp} (h : Good (pre ++ s :: post)) :
    Good pre ∧ Good post ∧ 0 < s.len ∧ (∀ t ∈ pre, t.stop < s.start) ∧ (∀ t ∈ post, s.stop < t.start) ∧
    (∀ a ∈ pre, ∀ b ∈ post, a.stop < b.start) := by
  obtain ⟨h1, h2⟩ := h
  rw [List.pairwise_append] at h2
  obtain ⟨hp, hsp, hcross⟩ := h2
  rw [List.pairwise_cons] at hsp
  refine ⟨⟨fun t ht => h1 t (by simp [ht]), hp⟩, ⟨fun t ht => h1 t (by simp [ht]), hsp.2⟩, h1 s (by simp),
    fun t ht => hcross t ht s (by simp), hsp.1, fun a ha b hb => hcross a ha b (by simp [hb])⟩

/-- **getFreeRange**: first fit; the returned map is canonical and covers exactly the old coverage
    minus the allocated bytes -/
theorem getFreeRange_spec (fm : List Sp) (n st rem : Nat) (fm' : List Sp) (hn : 0 < n) (hg : Good fm)
    (h : getFreeRange fm n = some (st, rem, fm')) :
    (∃ pre s post, fm = pre ++ s :: post ∧ (∀ t ∈ pre, t.len < n) ∧ n ≤ s.len ∧ st = s.start ∧ rem = s.len - n) ∧
    Good fm' ∧ ∀ p, covers fm' p ↔ (covers fm p ∧ ¬ (st ≤ p ∧ p < st + n)) := by
  unfold getFreeRange at h
  rw [if_neg (by omega)] at h
  rcases getFreeRange_go fm [] n with ⟨h1, _⟩ | ⟨pre, s, post, h1, h2, h3, h4⟩
  · rw [h1] at h; cases h
  · rw [h4] at h
    simp only [List.reverse_nil, List.nil_append, Option.some.injEq, Prod.mk.injEq] at h
    obtain ⟨rfl, rfl, rfl⟩ := h
    refine ⟨⟨pre, s, post, h1, h2, h3, rfl, rfl⟩, ?_, ?_⟩
    · subst h1
      obtain ⟨gp, gq, hs, hps, hsq, hpq⟩ := good_append_cons hg
      split
      · -- region consumed entirely
        refine ⟨?_, ?_⟩
        · intro t ht
          rcases List.mem_append.mp ht with h | h
          · exact gp.1 t h
          · exact gq.1 t h
        · rw [List.pairwise_append]
          exact ⟨gp.2, gq.2, hpq⟩
      · rename_i hrem
        refine ⟨?_, ?_⟩
        · intro t ht
          rcases List.mem_append.mp ht with h | h
          · exact gp.1 t h
          · rcases List.mem_cons.mp h with rfl | h
            · simp; omega
            · exact gq.1 t h
        · rw [List.pairwise_append]
          refine ⟨gp.2, ?_, ?_⟩
          · rw [List.pairwise_cons]
            refine ⟨?_, gq.2⟩
            intro t ht
            have := hsq t ht
            simp [Sp.stop] at *; omega
          · intro a ha b hb
            rcases List.mem_cons.mp hb with rfl | hb
            · have := hps a ha; simp [Sp.stop] at *; omega
            · exact hpq a ha b hb
    · intro p
      subst h1
      obtain ⟨gp, gq, hs, hps, hsq, hpq⟩ := good_append_cons hg
      simp only [covers, List.mem_append, List.mem_cons]
      constructor
      · rintro ⟨t, ht, hpt⟩
        rcases ht with ht | ht
        · refine ⟨⟨t, Or.inl ht, hpt⟩, ?_⟩
          have := hps t ht
          simp [Sp.has, Sp.stop] at *; omega
        · split at ht
          · refine ⟨⟨t, Or.inr (Or.inr ht), hpt⟩, ?_⟩
            have := hsq t ht
            simp [Sp.has, Sp.stop] at *; omega
          · rcases List.mem_cons.mp ht with rfl | ht
            · refine ⟨⟨s, Or.inr (Or.inl rfl), ?_⟩, ?_⟩
              · simp [Sp.has, Sp.stop] at *; omega
              · simp [Sp.has, Sp.stop] at *; omega
            · refine ⟨⟨t, Or.inr (Or.inr ht), hpt⟩, ?_⟩
              have := hsq t ht
              simp [Sp.has, Sp.stop] at *; omega
      · rintro ⟨⟨t, ht, hpt⟩, hnot⟩
        rcases ht with ht | rfl | ht
        · exact ⟨t, Or.inl ht, hpt⟩
        · -- p is in the chosen region but not in the allocated prefix
          have hrem : ¬ (t.len - n = 0) := by simp [Sp.has, Sp.stop] at *; omega
          refine ⟨{ start := t.start + n, len := t.len - n }, Or.inr ?_, ?_⟩
          · rw [if_neg hrem]; simp
          · simp [Sp.has, Sp.stop] at *; omega
        · refine ⟨t, Or.inr ?_, hpt⟩
          split
          · exact ht
          · exact List.mem_cons_of_mem _ ht

end Syzgy
