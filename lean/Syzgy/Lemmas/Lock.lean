import Syzgy.Model.Lock
/-! Deadlock freedom and mutual exclusion of disciplined lock programs, any number of threads. -/
namespace Syzgy.Lock

theorem discB_iff (held : List (Nat × Mode)) (p : List Act) : discB held p = true ↔ Disc held p := by
  induction p generalizing held with
  | nil => simp [discB, Disc, List.isEmpty_iff]
  | cons a p ih =>
    cases a with
    | acq l m => simp [discB, Disc, ih]
    | rel l m => simp [discB, Disc, ih]
    | tau => simp [discB, Disc, ih]

/-- well-formedness of a (reachable) configuration -/
structure WF (c : Cfg) : Prop where
  busy : ∀ t ∈ c, t.held ≠ [] → t.prog ≠ []
  order : ∀ t ∈ c, ∀ l m p, t.prog = .acq l m :: p → ∀ h ∈ t.held, h.1 < l
  ann : ∀ t ∈ c, ∀ l, t.announced = some l → ∃ p, t.prog = .acq l .W :: p

theorem exists_max_held (c : Cfg) (h : ∃ l, holds c l) :
    ∃ L, holds c L ∧ ∀ l, holds c l → l ≤ L := by
  let ids : List Nat := c.flatMap (fun t => t.held.map (·.1))
  have mem_ids : ∀ l, holds c l ↔ l ∈ ids := by
    intro l
    simp only [holds, ids, List.mem_flatMap, List.mem_map]
    constructor
    · rintro ⟨t, ht, m, hm⟩; exact ⟨t, ht, (l, m), hm, rfl⟩
    · rintro ⟨t, ht, ⟨l', m⟩, hm, rfl⟩; exact ⟨t, ht, m, hm⟩
  have hne : ids ≠ [] := by
    obtain ⟨l, hl⟩ := h
    intro he; have := (mem_ids l).mp hl; simp [he] at this
  have key : ∀ xs : List Nat, xs ≠ [] → ∃ L ∈ xs, ∀ x ∈ xs, x ≤ L := by
    intro xs
    induction xs with
    | nil => intro h; exact absurd rfl h
    | cons a r ih =>
      intro _
      by_cases hr : r = []
      · subst hr; exact ⟨a, by simp, by simp⟩
      · obtain ⟨L, hL, hmax⟩ := ih hr
        by_cases hle : a ≤ L
        · exact ⟨L, by simp [hL], by
            intro x hx; rcases List.mem_cons.mp hx with rfl | hx
            · exact hle
            · exact hmax x hx⟩
        · refine ⟨a, by simp, ?_⟩
          intro x hx; rcases List.mem_cons.mp hx with rfl | hx
          · exact Nat.le_refl _
          · have := hmax x hx; omega
  obtain ⟨L, hL, hmax⟩ := key ids hne
  exact ⟨L, (mem_ids L).mpr hL, fun l hl => hmax l ((mem_ids l).mp hl)⟩

theorem announced_enabled (c : Cfg) (wf : WF c) (t : Thread) (ht : t ∈ c) (l : Nat)
    (ha : t.announced = some l) (hfree : ¬ holds c l) : enabled c t := by
  obtain ⟨p, hp⟩ := wf.ann t ht l ha
  simp only [enabled, hp]
  exact Or.inr hfree

theorem acq_free_progress (c : Cfg) (wf : WF c) (t : Thread) (ht : t ∈ c) (l : Nat) (m : Mode)
    (p : List Act) (hp : t.prog = .acq l m :: p) (hfree : ¬ holds c l) : ∃ t' ∈ c, enabled c t' := by
  cases m with
  | W => exact ⟨t, ht, by simp only [enabled, hp]; exact Or.inr hfree⟩
  | R =>
    by_cases hw : writerWaiting c l
    · obtain ⟨t', ht', ha⟩ := hw
      exact ⟨t', ht', announced_enabled c wf t' ht' l ha hfree⟩
    · refine ⟨t, ht, ?_⟩
      simp only [enabled, hp]
      refine ⟨?_, hw⟩
      rintro ⟨t', ht', hh⟩
      exact hfree ⟨t', ht', .W, hh⟩

theorem progress (c : Cfg) (wf : WF c) (hlive : ∃ t ∈ c, t.prog ≠ []) : ∃ t ∈ c, enabled c t := by
  by_cases hH : ∃ l, holds c l
  · obtain ⟨L, ⟨t, ht, m, hm⟩, hmax⟩ := exists_max_held c hH
    have hne : t.prog ≠ [] := wf.busy t ht (by intro h; simp [h] at hm)
    match hp : t.prog with
    | [] => exact absurd hp hne
    | .tau :: p => exact ⟨t, ht, by simp [enabled, hp]⟩
    | .rel l' m' :: p => exact ⟨t, ht, by simp [enabled, hp]⟩
    | .acq l' m' :: p =>
      have hlt : L < l' := wf.order t ht l' m' p hp (L, m) hm
      have hfree : ¬ holds c l' := fun h => by have := hmax l' h; omega
      exact acq_free_progress c wf t ht l' m' p hp hfree
  · obtain ⟨t, ht, hne⟩ := hlive
    match hp : t.prog with
    | [] => exact absurd hp hne
    | .tau :: p => exact ⟨t, ht, by simp [enabled, hp]⟩
    | .rel l' m' :: p => exact ⟨t, ht, by simp [enabled, hp]⟩
    | .acq l' m' :: p =>
      exact acq_free_progress c wf t ht l' m' p hp (fun h => hH ⟨l', h⟩)

def TInv (t : Thread) : Prop :=
  Disc t.held t.prog ∧ ∀ l, t.announced = some l → ∃ p, t.prog = .acq l .W :: p

/-- one step of one thread (local effect) -/
inductive LStep : Thread → Thread → Prop
  | tau (p held a) : LStep ⟨.tau :: p, held, a⟩ ⟨p, held, a⟩
  | rel (l m p held a) : LStep ⟨.rel l m :: p, held, a⟩ ⟨p, held.erase (l, m), a⟩
  | acqR (l p held) : LStep ⟨.acq l .R :: p, held, none⟩ ⟨p, (l, .R) :: held, none⟩
  | announce (l p held) : LStep ⟨.acq l .W :: p, held, none⟩ ⟨.acq l .W :: p, held, some l⟩
  | enter (l p held) : LStep ⟨.acq l .W :: p, held, some l⟩ ⟨p, (l, .W) :: held, none⟩

theorem TInv_step {t t' : Thread} (h : TInv t) (st : LStep t t') : TInv t' := by
  cases st with
  | tau p held a =>
    refine ⟨h.1, ?_⟩
    intro l ha; obtain ⟨q, hq⟩ := h.2 l ha; simp at hq
  | rel l m p held a =>
    refine ⟨h.1.2, ?_⟩
    intro l' ha; obtain ⟨q, hq⟩ := h.2 l' ha; simp at hq
  | acqR l p held => exact ⟨h.1.2, by intro l' ha; simp at ha⟩
  | announce l p held => exact ⟨h.1, by intro l' ha; simp at ha; subst ha; exact ⟨p, rfl⟩⟩
  | enter l p held => exact ⟨h.1.2, by intro l' ha; simp at ha⟩

theorem WF_of_TInv (c : Cfg) (h : ∀ t ∈ c, TInv t) : WF c where
  busy := by
    intro t ht hne hp
    have := (h t ht).1
    rw [hp] at this
    exact hne this
  order := by
    intro t ht l m p hp x hx
    have := (h t ht).1
    rw [hp] at this
    exact this.1 x hx
  ann := fun t ht l ha => (h t ht).2 l ha

/-- configurations reachable by interleaved thread steps that respect the lock guards -/
inductive Reach (c0 : Cfg) : Cfg → Prop
  | init : Reach c0 c0
  | step (pre post : List Thread) (t t' : Thread) :
      Reach c0 (pre ++ t :: post) → LStep t t' → enabled (pre ++ t :: post) t → Reach c0 (pre ++ t' :: post)

theorem TInv_reach (c0 c : Cfg) (h0 : ∀ t ∈ c0, TInv t) (r : Reach c0 c) : ∀ t ∈ c, TInv t := by
  induction r with
  | init => exact h0
  | step pre post t t' _ st _ ih =>
    intro x hx
    simp only [List.mem_append, List.mem_cons] at hx
    rcases hx with hx | rfl | hx
    · exact ih x (by simp [hx])
    · exact TInv_step (ih t (by simp)) st
    · exact ih x (by simp [hx])

theorem deadlock_free (progs : List (List Act)) (hd : ∀ p ∈ progs, Disc [] p) (c : Cfg)
    (r : Reach (progs.map (fun p => ⟨p, [], none⟩)) c) (hlive : ∃ t ∈ c, t.prog ≠ []) :
    ∃ t ∈ c, enabled c t := by
  apply progress c _ hlive
  apply WF_of_TInv
  apply TInv_reach _ _ _ r
  intro t ht
  simp only [List.mem_map] at ht
  obtain ⟨p, hp, rfl⟩ := ht
  exact ⟨hd p hp, by intro l ha; simp at ha⟩

/-- a disciplined program followed by a disciplined program is disciplined: a thread may issue any
    number of calls one after the other -/
theorem Disc_append (held : List (Nat × Mode)) (p q : List Act) (hp : Disc held p) (hq : Disc [] q) :
    Disc held (p ++ q) := by
  induction p generalizing held with
  | nil => simp only [Disc] at hp; subst hp; simpa using hq
  | cons a p ih =>
    cases a with
    | acq l m => exact ⟨hp.1, ih _ hp.2⟩
    | rel l m => exact ⟨hp.1, ih _ hp.2⟩
    | tau => exact ih _ hp

theorem Disc_flatten (calls : List (List Act)) (h : ∀ p ∈ calls, Disc [] p) : Disc [] calls.flatten := by
  induction calls with
  | nil => simp [Disc]
  | cons p ps ih =>
    simp only [List.flatten_cons]
    exact Disc_append [] p _ (h p (by simp)) (ih (fun q hq => h q (by simp [hq])))

/-- the re-entrant read lock: reader holds the read lock and wants it again, a writer has announced
    itself — nobody can move -/
def stuckReader : Thread := { prog := [.acq 0 .R, .rel 0 .R, .rel 0 .R], held := [(0, .R)], announced := none }
def stuckWriter : Thread := { prog := [.acq 0 .W, .rel 0 .W], held := [], announced := some 0 }

theorem reentrant_deadlock : ¬ ∃ t ∈ [stuckReader, stuckWriter], enabled [stuckReader, stuckWriter] t := by
  rintro ⟨t, ht, he⟩
  simp only [List.mem_cons, List.mem_nil_iff, or_false] at ht
  rcases ht with rfl | rfl
  · simp only [enabled, stuckReader] at he
    exact he.2 ⟨stuckWriter, by simp, rfl⟩
  · simp only [enabled, stuckWriter] at he
    rcases he with h | h
    · exact h rfl
    · exact h ⟨stuckReader, by simp, .R, by simp [stuckReader]⟩

end Syzgy.Lock

namespace Syzgy.Lock

/-- two threads never conflict on a lock: a write holder excludes every other holder -/
def Compat (a b : Thread) : Prop :=
  ∀ l, ((l, Mode.W) ∈ a.held → ∀ m, (l, m) ∉ b.held) ∧ ((l, Mode.W) ∈ b.held → ∀ m, (l, m) ∉ a.held)

theorem Compat.symm {a b : Thread} (h : Compat a b) : Compat b a := fun l => ⟨(h l).2, (h l).1⟩

def Excl (c : Cfg) : Prop := c.Pairwise Compat

theorem excl_split (pre post : List Thread) (t : Thread) :
    Excl (pre ++ t :: post) ↔
      Excl pre ∧ Excl post ∧ (∀ a ∈ pre, Compat a t) ∧ (∀ b ∈ post, Compat t b) ∧ (∀ a ∈ pre, ∀ b ∈ post, Compat a b) := by
  unfold Excl
  rw [List.pairwise_append, List.pairwise_cons]
  constructor
  · rintro ⟨h1, ⟨h2, h3⟩, h4⟩
    exact ⟨h1, h3, fun a ha => h4 a ha t (by simp), h2, fun a ha b hb => h4 a ha b (by simp [hb])⟩
  · rintro ⟨h1, h3, h5, h2, h4⟩
    refine ⟨h1, ⟨h2, h3⟩, ?_⟩
    intro a ha b hb
    rcases List.mem_cons.mp hb with rfl | hb
    · exact h5 a ha
    · exact h4 a ha b hb

/-- replacing a thread by one that holds a subset of its locks keeps compatibility -/
theorem compat_shrink {a t t' : Thread} (h : Compat a t) (hsub : ∀ x, x ∈ t'.held → x ∈ t.held) : Compat a t' :=
  fun l => ⟨fun ha m hm => (h l).1 ha m (hsub _ hm), fun ht m => (h l).2 (hsub _ ht) m⟩

/-- **mutual exclusion is an invariant** of every execution that respects the RWMutex guards -/
theorem excl_reach (c0 c : Cfg) (h0 : Excl c0) (r : Reach c0 c) : Excl c := by
  induction r with
  | init => exact h0
  | step pre post t t' _ st hen ih =>
    rw [excl_split] at ih ⊢
    obtain ⟨e1, e2, e3, e4, e5⟩ := ih
    refine ⟨e1, e2, ?_, ?_, e5⟩
    all_goals
      cases st with
      | tau p held a => first | exact e3 | exact e4
      | rel l m p held a =>
        first
          | exact fun x hx => compat_shrink (e3 x hx) (fun y hy => List.mem_of_mem_erase hy)
          | exact fun x hx => (compat_shrink (e4 x hx).symm (fun y hy => List.mem_of_mem_erase hy)).symm
      | announce l p held => first | exact e3 | exact e4
      | acqR l p held =>
        -- guard: no writer holds l anywhere
        simp only [enabled] at hen
        have hnw := hen.1
        first
          | (intro x hx l'
             have hc := e3 x hx l'
             refine ⟨fun hxw m hm => ?_, fun htw m => ?_⟩
             · rcases List.mem_cons.mp hm with hm | hm
               · cases hm
                 exact hnw ⟨x, by simp [hx], hxw⟩
               · exact hc.1 hxw m hm
             · rcases List.mem_cons.mp htw with htw | htw
               · cases htw
               · exact hc.2 htw m)
          | (intro x hx l'
             have hc := e4 x hx l'
             refine ⟨fun htw m => ?_, fun hxw m hm => ?_⟩
             · rcases List.mem_cons.mp htw with htw | htw
               · cases htw
               · exact hc.1 htw m
             · rcases List.mem_cons.mp hm with hm | hm
               · cases hm
                 exact hnw ⟨x, by simp [hx], hxw⟩
               · exact hc.2 hxw m hm)
      | enter l p held =>
        -- guard: the writer has announced itself, so it enters only when nobody holds l
        simp only [enabled] at hen
        have hfree : ¬ holds (pre ++ ⟨.acq l .W :: p, held, some l⟩ :: post) l := by
          rcases hen with h | h
          · exact absurd rfl h
          · exact h
        first
          | (intro x hx l'
             have hc := e3 x hx l'
             refine ⟨fun hxw m hm => ?_, fun htw m hm => ?_⟩
             · rcases List.mem_cons.mp hm with hm | hm
               · cases hm
                 exact hfree ⟨x, by simp [hx], .W, hxw⟩
               · exact hc.1 hxw m hm
             · rcases List.mem_cons.mp htw with htw | htw
               · cases htw
                 exact hfree ⟨x, by simp [hx], m, hm⟩
               · exact hc.2 htw m hm)
          | (intro x hx l'
             have hc := e4 x hx l'
             refine ⟨fun htw m hm => ?_, fun hxw m hm => ?_⟩
             · rcases List.mem_cons.mp htw with htw | htw
               · cases htw
                 exact hfree ⟨x, by simp [hx], m, hm⟩
               · exact hc.1 htw m hm
             · rcases List.mem_cons.mp hm with hm | hm
               · cases hm
                 exact hfree ⟨x, by simp [hx], .W, hxw⟩
               · exact hc.2 hxw m hm)

theorem excl_init (progs : List (List Act)) : Excl (progs.map (fun p => (⟨p, [], none⟩ : Thread))) := by
  unfold Excl
  rw [List.pairwise_map]
  induction progs with
  | nil => exact List.Pairwise.nil
  | cons p ps ih =>
    rw [List.pairwise_cons]
    exact ⟨fun _ _ l => ⟨fun h => by simp at h, fun h => by simp at h⟩, ih⟩

end Syzgy.Lock
