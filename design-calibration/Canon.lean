/-! Calibration: canonical form of the free map. Two Good interval lists with the same coverage are equal. -/
namespace Canon

structure Sp where
  start : Nat
  len : Nat
deriving DecidableEq, Repr

def Sp.stop (s : Sp) : Nat := s.start + s.len
def Sp.has (s : Sp) (p : Nat) : Prop := s.start ≤ p ∧ p < s.stop

def covers (fm : List Sp) (p : Nat) : Prop := ∃ s ∈ fm, s.has p

/-- non-empty regions; every later region starts strictly after an earlier one stops (gap ≥ 1) -/
def Good (fm : List Sp) : Prop := (∀ s ∈ fm, 0 < s.len) ∧ fm.Pairwise (fun a b => a.stop < b.start)

theorem good_cons {a : Sp} {r : List Sp} (h : Good (a :: r)) :
    0 < a.len ∧ (∀ b ∈ r, a.stop < b.start) ∧ Good r := by
  obtain ⟨h1, h2⟩ := h
  rw [List.pairwise_cons] at h2
  exact ⟨h1 a (by simp), h2.1, fun s hs => h1 s (by simp [hs]), h2.2⟩

/-- in a Good list headed by `a`, nothing below `a.start` is covered and `a.stop` is not covered -/
theorem not_covers_below {a : Sp} {r : List Sp} (h : Good (a :: r)) (p : Nat) (hp : p < a.start) :
    ¬ covers (a :: r) p := by
  obtain ⟨ha, hr, _⟩ := good_cons h
  rintro ⟨s, hs, hps⟩
  rcases List.mem_cons.mp hs with rfl | hs
  · exact absurd hps.1 (by omega)
  · have := hr s hs; simp [Sp.has, Sp.stop] at *; omega

theorem not_covers_stop {a : Sp} {r : List Sp} (h : Good (a :: r)) : ¬ covers (a :: r) a.stop := by
  obtain ⟨ha, hr, _⟩ := good_cons h
  rintro ⟨s, hs, hps⟩
  rcases List.mem_cons.mp hs with rfl | hs
  · simp [Sp.has] at hps
  · have := hr s hs; simp [Sp.has, Sp.stop] at *; omega

theorem covers_head {a : Sp} {r : List Sp} (h : Good (a :: r)) (p : Nat) (hp : a.has p) :
    covers (a :: r) p := ⟨a, by simp, hp⟩

theorem good_unique (x y : List Sp) (hx : Good x) (hy : Good y)
    (hc : ∀ p, covers x p ↔ covers y p) : x = y := by
  induction x generalizing y with
  | nil =>
    cases y with
    | nil => rfl
    | cons b s =>
      have hb := (good_cons hy).1
      have : covers (b :: s) b.start := covers_head hy _ (by simp [Sp.has, Sp.stop]; omega)
      have := (hc b.start).mpr this
      simp [covers] at this
  | cons a r ih =>
    cases y with
    | nil =>
      have ha := (good_cons hx).1
      have : covers (a :: r) a.start := covers_head hx _ (by simp [Sp.has, Sp.stop]; omega)
      have := (hc a.start).mp this
      simp [covers] at this
    | cons b s =>
      obtain ⟨ha, har, hr⟩ := good_cons hx
      obtain ⟨hb, hbs, hs⟩ := good_cons hy
      -- starts agree: each start is covered on its side, nothing below the other start is covered
      have hstart : a.start = b.start := by
        have c1 : covers (b :: s) a.start :=
          (hc _).mp (covers_head hx _ (by simp [Sp.has, Sp.stop]; omega))
        have c2 : covers (a :: r) b.start :=
          (hc _).mpr (covers_head hy _ (by simp [Sp.has, Sp.stop]; omega))
        have n1 := not_covers_below hy a.start
        have n2 := not_covers_below hx b.start
        by_cases h1 : a.start < b.start
        · exact absurd c1 (n1 h1)
        · by_cases h2 : b.start < a.start
          · exact absurd c2 (n2 h2)
          · omega
      -- stops agree: the other side's stop would be covered / uncovered inconsistently
      have hstop : a.stop = b.stop := by
        by_cases h1 : a.stop < b.stop
        · have : covers (b :: s) a.stop := covers_head hy _ (by simp [Sp.has, Sp.stop] at *; omega)
          exact absurd ((hc _).mpr this) (not_covers_stop hx)
        · by_cases h2 : b.stop < a.stop
          · have : covers (a :: r) b.stop := covers_head hx _ (by simp [Sp.has, Sp.stop] at *; omega)
            exact absurd ((hc _).mp this) (not_covers_stop hy)
          · omega
      have hab : a = b := by
        cases a; cases b; simp [Sp.stop] at *; omega
      subst hab
      congr 1
      apply ih s hr hs
      intro p
      -- coverage of the tails: points of the head are not in either tail
      constructor
      · rintro ⟨t, ht, hpt⟩
        have : covers (a :: s) p := (hc p).mp ⟨t, by simp [ht], hpt⟩
        obtain ⟨u, hu, hpu⟩ := this
        rcases List.mem_cons.mp hu with rfl | hu
        · have := har t ht; simp [Sp.has, Sp.stop] at *; omega
        · exact ⟨u, hu, hpu⟩
      · rintro ⟨t, ht, hpt⟩
        have : covers (a :: r) p := (hc p).mpr ⟨t, by simp [ht], hpt⟩
        obtain ⟨u, hu, hpu⟩ := this
        rcases List.mem_cons.mp hu with rfl | hu
        · have := hbs t ht; simp [Sp.has, Sp.stop] at *; omega
        · exact ⟨u, hu, hpu⟩

#print axioms good_unique
end Canon
