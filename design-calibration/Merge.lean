import Calib.Canon
/-! Calibration: Go's `markFree` merge pass on a sorted list of pairwise non-overlapping regions
    yields a Good list with the same coverage. -/
namespace Canon

/-- weak form: sorted, non-empty, non-overlapping (touching allowed) -/
def Weak (fm : List Sp) : Prop := (∀ s ∈ fm, 0 < s.len) ∧ fm.Pairwise (fun a b => a.stop ≤ b.start)

/-- the merge loop of `markFree`, with the "last merged region" carried as the head -/
def mergePass : List Sp → List Sp
  | [] => []
  | [a] => [a]
  | a :: b :: r =>
    if a.stop < b.start then a :: mergePass (b :: r)
    else mergePass ({ start := a.start, len := b.stop - a.start } :: r)
termination_by l => l.length

theorem weak_cons {a : Sp} {r : List Sp} (h : Weak (a :: r)) :
    0 < a.len ∧ (∀ b ∈ r, a.stop ≤ b.start) ∧ Weak r := by
  obtain ⟨h1, h2⟩ := h
  rw [List.pairwise_cons] at h2
  exact ⟨h1 a (by simp), h2.1, fun s hs => h1 s (by simp [hs]), h2.2⟩

theorem weak_merge_head {a b : Sp} {r : List Sp} (h : Weak (a :: b :: r)) (ht : ¬ a.stop < b.start) :
    Weak ({ start := a.start, len := b.stop - a.start } :: r) ∧
    ∀ p, covers ({ start := a.start, len := b.stop - a.start } :: r) p ↔ covers (a :: b :: r) p := by
  obtain ⟨ha, har, hbr⟩ := weak_cons h
  obtain ⟨hb, hbr', hr⟩ := weak_cons hbr
  have hab := har b (by simp)
  have heq : a.stop = b.start := by omega
  refine ⟨⟨?_, ?_⟩, ?_⟩
  · intro s hs
    rcases List.mem_cons.mp hs with rfl | hs
    · simp [Sp.stop] at *; omega
    · exact hr.1 s hs
  · rw [List.pairwise_cons]
    refine ⟨?_, hr.2⟩
    intro c hc
    have := hbr' c hc
    simp [Sp.stop] at *; omega
  · intro p
    simp only [covers, List.mem_cons, exists_eq_or_imp, Sp.has, Sp.stop] at *
    constructor
    · rintro (h1 | h1)
      · by_cases hp : p < a.start + a.len
        · exact Or.inl ⟨h1.1, hp⟩
        · exact Or.inr (Or.inl ⟨by omega, by omega⟩)
      · exact Or.inr (Or.inr h1)
    · rintro (h1 | h1 | h1)
      · exact Or.inl ⟨h1.1, by omega⟩
      · exact Or.inl ⟨by omega, by omega⟩
      · exact Or.inr h1

theorem mergePass_spec (n : Nat) : ∀ l : List Sp, l.length ≤ n → Weak l →
    Good (mergePass l) ∧ (∀ p, covers (mergePass l) p ↔ covers l p) ∧
    (∀ a r, l = a :: r → ∃ a' r', mergePass l = a' :: r' ∧ a'.start = a.start) := by
  induction n with
  | zero =>
    intro l hl _
    have : l = [] := List.eq_nil_of_length_eq_zero (by omega)
    subst this
    simp [mergePass, Good]
  | succ n ih =>
    intro l hl hw
    match l, hl, hw with
    | [], _, _ => simp [mergePass, Good]
    | [a], _, hw =>
      have hm : mergePass [a] = [a] := by simp [mergePass]
      rw [hm]
      exact ⟨⟨by simpa using hw.1, by simp⟩, fun p => Iff.rfl, by
        intro a' r' h; simp at h; exact ⟨a, [], rfl, by rw [h.1]⟩⟩
    | a :: b :: r, hl, hw =>
      obtain ⟨ha, har, hbr⟩ := weak_cons hw
      rw [mergePass]
      split
      · rename_i hlt
        obtain ⟨hg, hc, hh⟩ := ih (b :: r) (by simp at hl ⊢; omega) hbr
        obtain ⟨b', r', hm, hbs⟩ := hh b r rfl
        refine ⟨⟨?_, ?_⟩, ?_, ?_⟩
        · intro s hs
          rcases List.mem_cons.mp hs with rfl | hs
          · exact ha
          · exact hg.1 s hs
        · rw [List.pairwise_cons]
          refine ⟨?_, hg.2⟩
          intro c hc'
          -- every region of the merged tail starts at or after b.start
          rw [hm] at hc' hg
          rcases List.mem_cons.mp hc' with rfl | hc'
          · omega
          · have := (List.pairwise_cons.mp hg.2).1 c hc'
            simp [Sp.stop] at *; omega
        · intro p
          simp only [covers, List.mem_cons, exists_eq_or_imp] at hc ⊢
          rw [← hc p]
        · intro a' r'' h; simp at h; exact ⟨a, _, rfl, by rw [h.1]⟩
      · rename_i hnlt
        obtain ⟨hw', hc'⟩ := weak_merge_head hw hnlt
        obtain ⟨hg, hc, hh⟩ := ih _ (by simp at hl ⊢; omega) hw'
        refine ⟨hg, fun p => (hc p).trans (hc' p), ?_⟩
        intro a' r'' h
        simp at h
        obtain ⟨x, y, hm, hs⟩ := hh _ r rfl
        exact ⟨x, y, hm, by rw [hs, ← h.1]⟩

#print axioms mergePass_spec
end Canon
