/-! Calibration for C03: the bounded max-heap scan of `consider` (K branch) returns the K smallest
    distances, for every input list (= every visiting order) and every K. Heap = descending list. -/
namespace Knn

def insDesc (x : Nat) : List Nat → List Nat
  | [] => [x]
  | a :: r => if a ≤ x then x :: a :: r else a :: insDesc x r

def topGt (h : List Nat) (d : Nat) : Bool :=
  match h with
  | [] => false
  | top :: _ => decide (top > d)

/-- Go: `if Len < K || pq[0].Priority > distance { Push; if Len > K { Pop } }` -/
def consider (K : Nat) (h : List Nat) (d : Nat) : List Nat :=
  if decide (h.length < K) || topGt h d then
    let h' := insDesc d h
    if h'.length > K then h'.tail else h'
  else h

def scan (K : Nat) (ds : List Nat) : List Nat := ds.foldl (consider K) []

@[reducible] def Desc (l : List Nat) : Prop := List.Pairwise (fun a b => a ≥ b) l

theorem insDesc_perm (x : Nat) (l : List Nat) : (insDesc x l).Perm (x :: l) := by
  induction l with
  | nil => exact List.Perm.refl _
  | cons a r ih =>
    simp only [insDesc]; split
    · exact List.Perm.refl _
    · exact (List.Perm.cons a ih).trans (List.Perm.swap x a r)

theorem insDesc_mem (x y : Nat) (l : List Nat) : y ∈ insDesc x l ↔ y = x ∨ y ∈ l := by
  rw [(insDesc_perm x l).mem_iff]; simp

theorem insDesc_desc (x : Nat) (l : List Nat) (h : Desc l) : Desc (insDesc x l) := by
  induction l with
  | nil => simp [insDesc]
  | cons a r ih =>
    unfold Desc at *
    simp only [insDesc]; split
    · rename_i hle
      rw [List.pairwise_cons] at h ⊢
      refine ⟨?_, List.pairwise_cons.mpr h⟩
      intro y hy
      rcases List.mem_cons.mp hy with rfl | hy
      · exact hle
      · have := h.1 y hy; omega
    · rename_i hnle
      rw [List.pairwise_cons] at h ⊢
      refine ⟨?_, ih h.2⟩
      intro y hy
      rcases (insDesc_mem x y r).mp hy with rfl | hy
      · omega
      · exact h.1 y hy

theorem insDesc_length (x : Nat) (l : List Nat) : (insDesc x l).length = l.length + 1 := by
  simpa using (insDesc_perm x l).length_eq

/-- the invariant: `h` = current heap, `rest` = everything seen and not kept -/
structure Inv (K : Nat) (seen h rest : List Nat) : Prop where
  perm : (h ++ rest).Perm seen
  desc : Desc h
  len : h.length = min K seen.length
  low : ∀ x ∈ h, ∀ y ∈ rest, x ≤ y

theorem step (K : Nat) (seen h rest : List Nat) (d : Nat) (inv : Inv K seen h rest) :
    ∃ rest', Inv K (seen ++ [d]) (consider K h d) rest' := by
  have hlen := inv.perm.length_eq
  simp only [List.length_append] at hlen
  unfold consider
  by_cases hlt : h.length < K
  · -- heap not full: nothing has been dropped yet
    have hrest : rest = [] := by
      have := inv.len
      have : rest.length = 0 := by omega
      exact List.eq_nil_of_length_eq_zero this
    subst hrest
    have hp : h.Perm seen := by simpa using inv.perm
    have hls : h.length = seen.length := hp.length_eq
    simp only [hlt, decide_true, Bool.true_or, ↓reduceIte]
    have hl' : ¬ (insDesc d h).length > K := by rw [insDesc_length]; omega
    simp only [hl', ↓reduceIte]
    refine ⟨[], ⟨?_, insDesc_desc d h inv.desc, ?_, by simp⟩⟩
    · simp only [List.append_nil]
      exact (insDesc_perm d h).trans ((List.Perm.cons d hp).trans (List.perm_append_singleton d seen).symm)
    · rw [insDesc_length]; simp only [List.length_append, List.length_singleton]; omega
  · have hfull : h.length = K := by have := inv.len; omega
    simp only [hlt, decide_false, Bool.false_or]
    cases h with
    | nil =>
      -- K = 0: nothing is ever kept
      simp only [topGt, Bool.false_eq_true, ↓reduceIte]
      refine ⟨d :: rest, ⟨?_, inv.desc, by simp at hfull; simp [← hfull], by simp⟩⟩
      simp only [List.nil_append] at *
      exact (List.Perm.cons d inv.perm).trans (List.perm_append_singleton d seen).symm
    | cons top r =>
      have hd := List.pairwise_cons.mp inv.desc
      by_cases hgt : top > d
      · -- accept d, pop the old maximum
        have hins : insDesc d (top :: r) = top :: insDesc d r := by
          simp only [insDesc]; rw [if_neg (by omega)]
        simp only [topGt, hgt, decide_true, ↓reduceIte, hins, List.length_cons, insDesc_length,
          List.tail_cons]
        have hk : r.length + 1 + 1 > K := by simp at hfull; omega
        simp only [hk, ↓reduceIte]
        refine ⟨top :: rest, ⟨?_, insDesc_desc d r hd.2, ?_, ?_⟩⟩
        · have p1 : (insDesc d r ++ top :: rest).Perm (d :: (top :: r ++ rest)) := by
            have := (insDesc_perm d r).append_right (top :: rest)
            refine this.trans ?_
            simp only [List.cons_append]
            refine List.Perm.cons d ?_
            exact List.perm_middle
          exact p1.trans ((List.Perm.cons d inv.perm).trans (List.perm_append_singleton d seen).symm)
        · rw [insDesc_length]; simp at hfull ⊢; omega
        · intro x hx y hy
          have hxle : x ≤ top := by
            rcases (insDesc_mem d x r).mp hx with rfl | hx
            · omega
            · exact hd.1 x hx
          rcases List.mem_cons.mp hy with rfl | hy
          · exact hxle
          · have := inv.low top (by simp) y hy; omega
      · -- reject d
        simp only [topGt, hgt, decide_false, Bool.false_eq_true, ↓reduceIte]
        refine ⟨d :: rest, ⟨?_, inv.desc, ?_, ?_⟩⟩
        · have : ((top :: r) ++ d :: rest).Perm (d :: ((top :: r) ++ rest)) := List.perm_middle
          exact this.trans ((List.Perm.cons d inv.perm).trans (List.perm_append_singleton d seen).symm)
        · simp at hfull ⊢; omega
        · intro x hx y hy
          rcases List.mem_cons.mp hy with rfl | hy
          · rcases List.mem_cons.mp hx with rfl | hx
            · omega
            · have := hd.1 x hx; omega
          · exact inv.low x hx y hy

/-- EXACT K-NEAREST: for every list of distances (any order) and every K the scan ends with a heap
    that is sorted, has `min K n` entries, is a sub-multiset of the input, and every kept value is
    ≤ every dropped one — i.e. exactly the K smallest, ties at the cut-off broken either way. -/
theorem exact_knn (K : Nat) (ds : List Nat) : ∃ rest, Inv K ds (scan K ds) rest := by
  suffices ∀ seen h rest, Inv K seen h rest → ∃ rest', Inv K (seen ++ ds) (ds.foldl (consider K) h) rest' by
    simpa [scan] using this [] [] [] ⟨List.Perm.refl _, by simp, by simp, by simp⟩
  induction ds with
  | nil => intro seen h rest inv; exact ⟨rest, by simpa using inv⟩
  | cons d ds ih =>
    intro seen h rest inv
    obtain ⟨rest', inv'⟩ := step K seen h rest d inv
    have := ih (seen ++ [d]) (consider K h d) rest' inv'
    simpa [List.append_assoc] using this

#print axioms exact_knn
end Knn
