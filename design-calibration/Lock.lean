/-! Calibration for C10: deadlock freedom of a lock hierarchy with Go `sync.RWMutex` semantics
    (writer preference: a pending `Lock` blocks new `RLock`s), for ANY number of threads. -/
namespace LockCal

inductive Mode | R | W
deriving DecidableEq, Repr

inductive Act
  | acq (l : Nat) (m : Mode)
  | rel (l : Nat) (m : Mode)
  | tau
deriving DecidableEq, Repr

structure Thread where
  prog : List Act
  held : List (Nat × Mode)
  announced : Option Nat          -- a `Lock()` call that has announced itself and waits for readers
deriving Repr

abbrev Cfg := List Thread

def holds (c : Cfg) (l : Nat) : Prop := ∃ t ∈ c, ∃ m, (l, m) ∈ t.held
def writerHolds (c : Cfg) (l : Nat) : Prop := ∃ t ∈ c, (l, Mode.W) ∈ t.held
def writerWaiting (c : Cfg) (l : Nat) : Prop := ∃ t ∈ c, t.announced = some l

/-- thread `t` (a member of `c`) can take a step -/
def enabled (c : Cfg) (t : Thread) : Prop :=
  match t.prog with
  | [] => False
  | .tau :: _ => True
  | .rel _ _ :: _ => True
  | .acq l .R :: _ => ¬ writerHolds c l ∧ ¬ writerWaiting c l
  | .acq l .W :: _ => t.announced ≠ some l   -- the announce step is always possible
                      ∨ ¬ holds c l           -- announced: enter when nobody holds the lock

/-- well-formedness of a (reachable) configuration -/
structure WF (c : Cfg) : Prop where
  /-- a thread that holds something still has work to do (programs are balanced) -/
  busy : ∀ t ∈ c, t.held ≠ [] → t.prog ≠ []
  /-- lock order: the next acquisition is strictly above everything the thread holds -/
  order : ∀ t ∈ c, ∀ l m p, t.prog = .acq l m :: p → ∀ h ∈ t.held, h.1 < l
  /-- an announced writer is sitting at that very `Lock` call -/
  ann : ∀ t ∈ c, ∀ l, t.announced = some l → ∃ p, t.prog = .acq l .W :: p

theorem exists_max_held (c : Cfg) (h : ∃ l, holds c l) :
    ∃ L, holds c L ∧ ∀ l, holds c l → l ≤ L := by
  -- all held lock ids, as a list
  let ids : List Nat := c.flatMap (fun t => t.held.map (·.1))
  have mem_ids : ∀ l, holds c l ↔ l ∈ ids := by
    intro l
    simp only [holds, ids, List.mem_flatMap, List.mem_map]
    constructor
    · rintro ⟨t, ht, m, hm⟩; exact ⟨t, ht, (l, m), hm, rfl⟩
    · rintro ⟨t, ht, ⟨l', m⟩, hm, rfl⟩; exact ⟨t, ht, m, hm⟩
  have hne : ids ≠ [] := by
    obtain ⟨l, hl⟩ := h
    intro he; have := (mem_ids l).mp hl; simp [he] at this
  have key : ∀ xs : List Nat, xs ≠ [] → ∃ L ∈ xs, ∀ x ∈ xs, x ≤ L := by
    intro xs
    induction xs with
    | nil => intro h; exact absurd rfl h
    | cons a r ih =>
      intro _
      by_cases hr : r = []
      · subst hr; exact ⟨a, by simp, by simp⟩
      · obtain ⟨L, hL, hmax⟩ := ih hr
        by_cases hle : a ≤ L
        · exact ⟨L, by simp [hL], by
            intro x hx; rcases List.mem_cons.mp hx with rfl | hx
            · exact hle
            · exact hmax x hx⟩
        · refine ⟨a, by simp, ?_⟩
          intro x hx; rcases List.mem_cons.mp hx with rfl | hx
          · exact Nat.le_refl _
          · have := hmax x hx; omega
  obtain ⟨L, hL, hmax⟩ := key ids hne
  exact ⟨L, (mem_ids L).mpr hL, fun l hl => hmax l ((mem_ids l).mp hl)⟩

/-- an announced writer on a lock nobody holds can enter -/
theorem announced_enabled (c : Cfg) (wf : WF c) (t : Thread) (ht : t ∈ c) (l : Nat)
    (ha : t.announced = some l) (hfree : ¬ holds c l) : enabled c t := by
  obtain ⟨p, hp⟩ := wf.ann t ht l ha
  simp only [enabled, hp]
  exact Or.inr hfree

/-- a thread whose next acquisition targets a lock nobody holds makes progress possible -/
theorem acq_free_progress (c : Cfg) (wf : WF c) (t : Thread) (ht : t ∈ c) (l : Nat) (m : Mode)
    (p : List Act) (hp : t.prog = .acq l m :: p) (hfree : ¬ holds c l) : ∃ t' ∈ c, enabled c t' := by
  cases m with
  | W => exact ⟨t, ht, by simp only [enabled, hp]; exact Or.inr hfree⟩
  | R =>
    by_cases hw : writerWaiting c l
    · obtain ⟨t', ht', ha⟩ := hw
      exact ⟨t', ht', announced_enabled c wf t' ht' l ha hfree⟩
    · refine ⟨t, ht, ?_⟩
      simp only [enabled, hp]
      refine ⟨?_, hw⟩
      rintro ⟨t', ht', hh⟩
      exact hfree ⟨t', ht', .W, hh⟩

/-- PROGRESS: in a well-formed configuration with an unfinished thread, some thread can step.
    No bound on the number of threads, locks, or program lengths. -/
theorem progress (c : Cfg) (wf : WF c) (hlive : ∃ t ∈ c, t.prog ≠ []) : ∃ t ∈ c, enabled c t := by
  by_cases hH : ∃ l, holds c l
  · -- some lock is held: look at a holder of the maximal held lock
    obtain ⟨L, ⟨t, ht, m, hm⟩, hmax⟩ := exists_max_held c hH
    have hne : t.prog ≠ [] := wf.busy t ht (by intro h; simp [h] at hm)
    match hp : t.prog with
    | [] => exact absurd hp hne
    | .tau :: p => exact ⟨t, ht, by simp [enabled, hp]⟩
    | .rel l' m' :: p => exact ⟨t, ht, by simp [enabled, hp]⟩
    | .acq l' m' :: p =>
      have hlt : L < l' := wf.order t ht l' m' p hp (L, m) hm
      have hfree : ¬ holds c l' := fun h => by have := hmax l' h; omega
      exact acq_free_progress c wf t ht l' m' p hp hfree
  · -- nothing is held at all
    obtain ⟨t, ht, hne⟩ := hlive
    match hp : t.prog with
    | [] => exact absurd hp hne
    | .tau :: p => exact ⟨t, ht, by simp [enabled, hp]⟩
    | .rel l' m' :: p => exact ⟨t, ht, by simp [enabled, hp]⟩
    | .acq l' m' :: p =>
      exact acq_free_progress c wf t ht l' m' p hp (fun h => hH ⟨l', h⟩)

/-- The defect shape: a thread that re-acquires a read lock it already holds while a writer has
    announced itself — nobody can move. (ComputeStats → computeAverageDistance vs. any writer.) -/
def reader : Thread := { prog := [.acq 0 .R, .rel 0 .R, .rel 0 .R], held := [(0, .R)], announced := none }
def writer : Thread := { prog := [.acq 0 .W, .rel 0 .W], held := [], announced := some 0 }

theorem reentrant_deadlock : ¬ ∃ t ∈ [reader, writer], enabled [reader, writer] t := by
  rintro ⟨t, ht, he⟩
  simp only [List.mem_cons, List.mem_nil_iff, or_false] at ht
  rcases ht with rfl | rfl
  · -- the reader is blocked by the announced writer
    simp only [enabled, reader] at he
    exact he.2 ⟨writer, by simp, rfl⟩
  · -- the writer is blocked by the reader
    simp only [enabled, writer] at he
    rcases he with h | h
    · exact h rfl
    · exact h ⟨reader, by simp, .R, by simp [reader]⟩

/-! ### From a static discipline on programs to `WF` of every reachable configuration -/

/-- static discipline of the remaining program relative to what is held: acquisitions strictly
    upwards, releases only of held locks, and everything released at the end -/
def Disc : List (Nat × Mode) → List Act → Prop
  | held, [] => held = []
  | held, .acq l m :: p => (∀ h ∈ held, h.1 < l) ∧ Disc ((l, m) :: held) p
  | held, .rel l m :: p => (l, m) ∈ held ∧ Disc (held.erase (l, m)) p
  | held, .tau :: p => Disc held p

/-- per-thread invariant -/
def TInv (t : Thread) : Prop :=
  Disc t.held t.prog ∧ ∀ l, t.announced = some l → ∃ p, t.prog = .acq l .W :: p

/-- one step of one thread (the lock-availability guard is `enabled`; here only the local effect) -/
inductive LStep : Thread → Thread → Prop
  | tau (p held a) : LStep ⟨.tau :: p, held, a⟩ ⟨p, held, a⟩
  | rel (l m p held a) : LStep ⟨.rel l m :: p, held, a⟩ ⟨p, held.erase (l, m), a⟩
  | acqR (l p held) : LStep ⟨.acq l .R :: p, held, none⟩ ⟨p, (l, .R) :: held, none⟩
  | announce (l p held) : LStep ⟨.acq l .W :: p, held, none⟩ ⟨.acq l .W :: p, held, some l⟩
  | enter (l p held) : LStep ⟨.acq l .W :: p, held, some l⟩ ⟨p, (l, .W) :: held, none⟩

theorem TInv_step {t t' : Thread} (h : TInv t) (st : LStep t t') : TInv t' := by
  cases st with
  | tau p held a =>
    refine ⟨h.1, ?_⟩
    intro l ha; obtain ⟨q, hq⟩ := h.2 l ha; simp at hq
  | rel l m p held a =>
    refine ⟨h.1.2, ?_⟩
    intro l' ha; obtain ⟨q, hq⟩ := h.2 l' ha; simp at hq
  | acqR l p held => exact ⟨h.1.2, by intro l' ha; simp at ha⟩
  | announce l p held => exact ⟨h.1, by intro l' ha; simp at ha; subst ha; exact ⟨p, rfl⟩⟩
  | enter l p held => exact ⟨h.1.2, by intro l' ha; simp at ha⟩

theorem WF_of_TInv (c : Cfg) (h : ∀ t ∈ c, TInv t) : WF c where
  busy := by
    intro t ht hne hp
    have := (h t ht).1
    rw [hp] at this
    exact hne this
  order := by
    intro t ht l m p hp x hx
    have := (h t ht).1
    rw [hp] at this
    exact this.1 x hx
  ann := fun t ht l ha => (h t ht).2 l ha

/-- configurations reachable from an initial one by interleaved thread steps -/
inductive Reach (c0 : Cfg) : Cfg → Prop
  | init : Reach c0 c0
  | step (pre post : List Thread) (t t' : Thread) :
      Reach c0 (pre ++ t :: post) → LStep t t' → Reach c0 (pre ++ t' :: post)

theorem TInv_reach (c0 c : Cfg) (h0 : ∀ t ∈ c0, TInv t) (r : Reach c0 c) : ∀ t ∈ c, TInv t := by
  induction r with
  | init => exact h0
  | step pre post t t' _ st ih =>
    intro x hx
    simp only [List.mem_append, List.mem_cons] at hx
    rcases hx with hx | rfl | hx
    · exact ih x (by simp [hx])
    · exact TInv_step (ih t (by simp)) st
    · exact ih x (by simp [hx])

/-- DEADLOCK FREEDOM: start any number of threads, each about to run a program that respects the
    lock hierarchy; in every reachable configuration with unfinished work some thread can step. -/
theorem deadlock_free (progs : List (List Act)) (hd : ∀ p ∈ progs, Disc [] p) (c : Cfg)
    (r : Reach (progs.map (fun p => ⟨p, [], none⟩)) c) (hlive : ∃ t ∈ c, t.prog ≠ []) :
    ∃ t ∈ c, enabled c t := by
  apply progress c _ hlive
  apply WF_of_TInv
  apply TInv_reach _ _ _ r
  intro t ht
  simp only [List.mem_map] at ht
  obtain ⟨p, hp, rfl⟩ := ht
  exact ⟨hd p hp, by intro l ha; simp at ha⟩

/-- non-vacuity: the lock program shape of `AddDocument` (Collection.mutex = 0 in write mode, then
    SpanFile.fileMutex = 1) satisfies the discipline; `ComputeStats` as written does not -/
example : Disc [] [.acq 0 .W, .acq 1 .W, .tau, .rel 1 .W, .rel 0 .W] := by
  simp [Disc, List.erase]
example : ¬ Disc [] [.acq 0 .R, .acq 0 .R, .rel 0 .R, .rel 0 .R] := by
  simp [Disc]

#print axioms deadlock_free
#print axioms progress
#print axioms reentrant_deadlock
end LockCal
