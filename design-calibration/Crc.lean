namespace Crc

def poly : BitVec 32 := 0xEDB88320#32
def mask (b : Bool) : BitVec 32 := if b then poly else 0#32
def step0 (s : BitVec 32) : BitVec 32 := (s >>> 1) ^^^ mask (s.getLsbD 0)
def bit (b : Bool) : BitVec 32 := if b then 1#32 else 0#32
def step (s : BitVec 32) (b : Bool) : BitVec 32 := step0 (s ^^^ bit b)
def feed (s : BitVec 32) (bs : List Bool) : BitVec 32 := bs.foldl step s

theorem mask_xor (x y : Bool) : mask (x ^^ y) = mask x ^^^ mask y := by
  cases x <;> cases y <;> simp [mask]

theorem step0_xor (a b : BitVec 32) : step0 (a ^^^ b) = step0 a ^^^ step0 b := by
  unfold step0
  rw [BitVec.getLsbD_xor, mask_xor, BitVec.ushiftRight_xor_distrib]
  ac_rfl

theorem step0_zero : step0 0#32 = 0#32 := by decide

theorem step0_eq_zero (c : BitVec 32) (h : step0 c = 0#32) : c = 0#32 := by
  unfold step0 mask at h
  by_cases hc : c.getLsbD 0
  · -- poly xored in: bit 31 of result is 1 (shifted value has bit 31 clear)
    rw [if_pos hc] at h
    have := congrArg (fun v => v.getLsbD 31) h
    simp [poly] at this
  · rw [if_neg hc] at h
    simp at h
    ext i hi
    by_cases h0 : i = 0
    · subst h0; simpa using hc
    · have := congrArg (fun v => v.getLsbD (i-1)) h
      simp at this
      have e : 1 + (i - 1) = i := by omega
      rw [e] at this
      simpa [hi] using this

theorem step0_inj (a b : BitVec 32) (h : step0 a = step0 b) : a = b := by
  have hx : step0 (a ^^^ b) = 0#32 := by rw [step0_xor, h]; simp
  have hz := step0_eq_zero _ hx
  have := congrArg (· ^^^ b) hz
  simpa [BitVec.xor_assoc] using this

/-- linearity of the whole register run: feeding xor of two equal-length bit strings -/
theorem bit_xor (a b : Bool) : bit (a ^^ b) = bit a ^^^ bit b := by
  cases a <;> cases b <;> decide

theorem step_xor (s t : BitVec 32) (a b : Bool) :
    step (s ^^^ t) (a ^^ b) = step s a ^^^ step t b := by
  unfold step
  rw [← step0_xor, bit_xor]
  congr 1
  ac_rfl

theorem feed_xor (s t : BitVec 32) (as bs : List Bool) (h : as.length = bs.length) :
    feed (s ^^^ t) (List.zipWith (· ^^ ·) as bs) = feed s as ^^^ feed t bs := by
  induction as generalizing s t bs with
  | nil => cases bs <;> simp_all [feed]
  | cons a as ih =>
    cases bs with
    | nil => simp at h
    | cons b bs =>
      simp only [List.zipWith_cons_cons, feed, List.foldl_cons]
      rw [step_xor]
      exact ih _ _ _ (by simpa using h)

theorem feed_zero_zeros (n : Nat) : feed 0#32 (List.replicate n false) = 0#32 := by
  induction n with
  | zero => rfl
  | succ n ih =>
    simp only [List.replicate_succ, feed, List.foldl_cons]
    have : step 0#32 false = 0#32 := by decide
    rw [this]; exact ih

theorem feed_zeros_ne (s : BitVec 32) (hs : s ≠ 0#32) (n : Nat) :
    feed s (List.replicate n false) ≠ 0#32 := by
  induction n generalizing s with
  | zero => simpa [feed]
  | succ n ih =>
    simp only [List.replicate_succ, feed, List.foldl_cons]
    apply ih
    intro h
    apply hs
    have : step s false = step0 s := by simp [step, bit]
    rw [this] at h
    exact step0_eq_zero _ h



def iter : Nat → BitVec 32 → BitVec 32
  | 0, s => s
  | n+1, s => iter n (step0 s)

theorem iter_ne_zero (n : Nat) (s : BitVec 32) (h : s ≠ 0#32) : iter n s ≠ 0#32 := by
  induction n generalizing s with
  | zero => exact h
  | succ n ih => exact ih _ (fun h' => h (step0_eq_zero _ h'))

/-- first fed bit in bit 0, next in bit 1, ... -/
def pack : List Bool → BitVec 32
  | [] => 0#32
  | b :: bs => bit b ^^^ (pack bs <<< 1)

theorem bit_getLsbD (b : Bool) (i : Nat) : (bit b).getLsbD i = (b && i == 0) := by
  cases b <;> simp [bit] <;> (cases i <;> simp)

theorem pack_high (bs : List Bool) (i : Nat) (h : bs.length ≤ i) : (pack bs).getLsbD i = false := by
  induction bs generalizing i with
  | nil => simp [pack]
  | cons b bs ih =>
    simp only [List.length_cons] at h
    simp only [pack, BitVec.getLsbD_xor, bit_getLsbD, BitVec.getLsbD_shiftLeft]
    have hi : i ≠ 0 := by omega
    have := ih (i - 1) (by omega)
    simp [hi, this]

theorem step0_shl (p : BitVec 32) (h : p.getLsbD 31 = false) : step0 (p <<< 1) = p := by
  unfold step0 mask
  have h0 : (p <<< 1).getLsbD 0 = false := by simp
  rw [h0]
  simp only [Bool.false_eq_true, ↓reduceIte, BitVec.xor_zero]
  ext i hi
  simp only [BitVec.getElem_ushiftRight, BitVec.getLsbD_shiftLeft]
  by_cases h31 : i = 31
  · subst h31; simp [← BitVec.getLsbD_eq_getElem, h]
  · have : 1 + i < 32 := by omega
    simp [this, BitVec.getLsbD_eq_getElem hi]

theorem feed_pack (bs : List Bool) (s : BitVec 32) (h : bs.length ≤ 32) :
    feed s bs = iter bs.length (s ^^^ pack bs) := by
  induction bs generalizing s with
  | nil => simp [feed, iter, pack]
  | cons b bs ih =>
    simp only [List.length_cons] at h
    have hl : bs.length ≤ 32 := by omega
    show feed (step s b) bs = iter bs.length (step0 (s ^^^ pack (b :: bs)))
    rw [ih _ hl]
    congr 1
    simp only [pack, step]
    rw [← BitVec.xor_assoc, step0_xor (s ^^^ bit b), step0_shl _ (pack_high bs 31 (by omega))]

theorem pack_eq_zero (bs : List Bool) (h : bs.length ≤ 32) (hz : pack bs = 0#32) : ∀ b ∈ bs, b = false := by
  induction bs with
  | nil => simp
  | cons b bs ih =>
    simp only [List.length_cons] at h
    have h0 := congrArg (fun v => v.getLsbD 0) hz
    simp only [pack, BitVec.getLsbD_xor, bit_getLsbD, BitVec.getLsbD_shiftLeft] at h0
    have hb : b = false := by cases b <;> simp_all
    subst hb
    have hs : pack bs <<< 1 = 0#32 := by simpa [pack, bit] using hz
    have hp : pack bs = 0#32 := by
      have := step0_shl (pack bs) (pack_high bs 31 (by omega))
      rw [hs, step0_zero] at this
      exact this.symm
    intro x hx
    rcases List.mem_cons.mp hx with rfl | hx
    · rfl
    · exact ih (by omega) hp x hx

/-- CRC-32 burst detection (linear part): a non-zero error pattern confined to a window of at most
    32 consecutive bits, anywhere in a message of any length, leaves a non-zero syndrome. -/
theorem burst_syndrome_ne_zero (pre post : Nat) (e : List Bool) (hl : e.length ≤ 32)
    (hne : ∃ b ∈ e, b = true) :
    feed 0#32 (List.replicate pre false ++ e ++ List.replicate post false) ≠ 0#32 := by
  have h1 : feed 0#32 (List.replicate pre false ++ e ++ List.replicate post false)
      = feed (feed (feed 0#32 (List.replicate pre false)) e) (List.replicate post false) := by
    simp [feed, List.foldl_append]
  rw [h1, feed_zero_zeros, feed_pack e _ hl]
  apply feed_zeros_ne
  apply iter_ne_zero
  intro hz
  obtain ⟨b, hb, hbt⟩ := hne
  have := pack_eq_zero e hl (by simpa using hz) b hb
  simp [hbt] at this

/-- with linearity: flipping such a pattern in ANY message changes the register, hence the checksum -/
theorem burst_detected (init : BitVec 32) (m E : List Bool) (hlen : m.length = E.length)
    (hE : feed 0#32 E ≠ 0#32) :
    feed init (List.zipWith (· ^^ ·) m E) ≠ feed init m := by
  have := feed_xor init 0#32 m E hlen
  simp only [BitVec.xor_zero] at this
  rw [this]
  intro h
  apply hE
  have h2 := congrArg (· ^^^ feed init m) h
  simpa [BitVec.xor_comm, ← BitVec.xor_assoc] using h2

/-- bits of a byte in CRC order (least significant first) -/
def byteBits (b : Nat) : List Bool := (List.range 8).map (fun i => b.testBit i)

/-- The negative result: the syndrome of flipping `61 d8` in the LAST two covered bytes is exactly
    `0xF4EE0000`, i.e. it only touches the two most significant bytes of the checksum value — the two
    bytes the file format stores FIRST (big-endian), adjacent to the flipped data bytes. -/
theorem straddle_syndrome : feed 0#32 (byteBits 0x61 ++ byteBits 0xd8) = 0xF4EE0000#32 := by decide

/-- ... for a message of any length (leading zero error bits do not move the zero register) -/
theorem straddle_syndrome_any (pre : Nat) :
    feed 0#32 (List.replicate pre false ++ (byteBits 0x61 ++ byteBits 0xd8)) = 0xF4EE0000#32 := by
  have : feed 0#32 (List.replicate pre false ++ (byteBits 0x61 ++ byteBits 0xd8))
      = feed (feed 0#32 (List.replicate pre false)) (byteBits 0x61 ++ byteBits 0xd8) := by
    simp [feed, List.foldl_append]
  rw [this, feed_zero_zeros, straddle_syndrome]

#print axioms straddle_syndrome_any
#print axioms burst_syndrome_ne_zero
#print axioms burst_detected
end Crc
