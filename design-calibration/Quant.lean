import Mathlib.Tactic.Linarith
import Mathlib.Tactic.Positivity
import Mathlib.Tactic.FieldSimp
import Mathlib.Tactic.Ring
import Mathlib.Algebra.Order.Floor.Ring
import Mathlib.Data.Rat.Floor

/-! Calibration for C12: the quantizer over exact rational arithmetic. -/
namespace Quant

/-- `math.Round` on a non-negative argument: floor (y + 1/2) -/
def roundNN (y : ℚ) : ℤ := ⌊y + 1/2⌋

def clamp (x : ℚ) : ℚ := max (-1) (min 1 x)

/-- code of x for `M = 2^b - 1` levels -/
def q (M : ℕ) (x : ℚ) : ℤ := roundNN ((clamp x + 1) / 2 * M)

def deq (M : ℕ) (k : ℤ) : ℚ := (k : ℚ) / M * 2 - 1

theorem clamp_mono {x y : ℚ} (h : x ≤ y) : clamp x ≤ clamp y := by
  unfold clamp; exact max_le_max le_rfl (min_le_min le_rfl h)

theorem q_mono (M : ℕ) {x y : ℚ} (h : x ≤ y) : q M x ≤ q M y := by
  unfold q roundNN
  apply Int.floor_mono
  have := clamp_mono h
  have hM : (0 : ℚ) ≤ M := by positivity
  nlinarith

theorem q_deq (M : ℕ) (hM : 0 < M) (k : ℤ) (h0 : 0 ≤ k) (h1 : k ≤ M) : q M (deq M k) = k := by
  have hMq : (0 : ℚ) < M := by exact_mod_cast hM
  have hk0 : (0 : ℚ) ≤ k := by exact_mod_cast h0
  have hk1 : (k : ℚ) ≤ M := by exact_mod_cast h1
  have hd : deq M k = (k : ℚ) / M * 2 - 1 := rfl
  have hr1 : (k : ℚ) / M ≤ 1 := by rw [div_le_one hMq]; exact hk1
  have hr0 : 0 ≤ (k : ℚ) / M := by positivity
  have hc : clamp (deq M k) = deq M k := by
    unfold clamp
    rw [hd, min_eq_right (by linarith), max_eq_right (by linarith)]
  unfold q roundNN
  rw [hc, hd]
  have : ((k : ℚ) / M * 2 - 1 + 1) / 2 * M = k := by field_simp; ring
  rw [this]
  rw [Int.floor_eq_iff]
  constructor <;> push_cast <;> linarith

/-- error bound: within one half step, for x in [-1, 1] -/
theorem err_bound (M : ℕ) (hM : 0 < M) (x : ℚ) (hx0 : -1 ≤ x) (hx1 : x ≤ 1) :
    |deq M (q M x) - x| ≤ 1 / M := by
  have hMq : (0 : ℚ) < M := by exact_mod_cast hM
  have hc : clamp x = x := by
    unfold clamp; rw [min_eq_right hx1, max_eq_right hx0]
  unfold q roundNN deq
  rw [hc]
  set y : ℚ := (x + 1) / 2 * M with hy
  have hf1 : (⌊y + 1/2⌋ : ℚ) ≤ y + 1/2 := Int.floor_le _
  have hf2 : y + 1/2 < (⌊y + 1/2⌋ : ℚ) + 1 := Int.lt_floor_add_one _
  have hx : x = y / M * 2 - 1 := by rw [hy]; field_simp; ring
  rw [abs_le]
  constructor
  · rw [hx]
    have : (⌊y + 1/2⌋ : ℚ) / M * 2 - 1 - (y / M * 2 - 1) = ((⌊y + 1/2⌋ : ℚ) - y) * 2 / M := by
      generalize (⌊y + 1/2⌋ : ℚ) = f
      field_simp; ring
    rw [this, neg_le, ← neg_div, div_le_div_iff_of_pos_right hMq]
    linarith
  · rw [hx]
    have : (⌊y + 1/2⌋ : ℚ) / M * 2 - 1 - (y / M * 2 - 1) = ((⌊y + 1/2⌋ : ℚ) - y) * 2 / M := by
      generalize (⌊y + 1/2⌋ : ℚ) = f
      field_simp; ring
    rw [this, div_le_div_iff_of_pos_right hMq]
    linarith

#print axioms err_bound
end Quant
