/-! Calibration: the span chain walk over a rendered segment list. -/
namespace Chain

abbrev Bytes := List UInt8

def be32 (n : Nat) : Bytes :=
  [(n / 16777216 % 256).toUInt8, (n / 65536 % 256).toUInt8, (n / 256 % 256).toUInt8, (n % 256).toUInt8]

def rd32 : Bytes → Option Nat
  | a :: b :: c :: d :: _ => some (a.toNat * 16777216 + b.toNat * 65536 + c.toNat * 256 + d.toNat)
  | _ => none

theorem rd32_be32 (n : Nat) (h : n < 4294967296) (rest : Bytes) : rd32 (be32 n ++ rest) = some n := by
  simp only [be32, rd32, List.cons_append, List.nil_append, Nat.toUInt8, UInt8.toNat_ofNat']
  congr 1
  omega

def activeMagic : Nat := 0x5350414E
def freeMagic : Nat := 0x46524545

/-- a segment: header is magic ++ length; `body` is everything after the 8 header bytes -/
structure Seg where
  active : Bool
  body : Bytes
deriving Repr

def Seg.size (s : Seg) : Nat := 8 + s.body.length
def Seg.bytes (s : Seg) : Bytes :=
  be32 (if s.active then activeMagic else freeMagic) ++ be32 s.size ++ s.body

def render (segs : List Seg) : Bytes := segs.flatMap Seg.bytes

theorem Seg.bytes_length (s : Seg) : s.bytes.length = s.size := by
  simp [Seg.bytes, Seg.size, be32]; omega

inductive Item | act (off : Nat) (body : Bytes) | free (off len : Nat)
deriving Repr

/-- the walk of scanFile, on the remaining bytes, with fuel -/
def walk : Nat → Nat → Bytes → Option (List Item)
  | 0, _, _ => none
  | fuel+1, off, rest =>
    if rest = [] then some [] else
    match rd32 rest, rd32 (rest.drop 4) with
    | some m, some len =>
      if len = 0 ∨ len < 8 ∨ rest.length < len then none else
      let body := (rest.take len).drop 8
      match walk fuel (off + len) (rest.drop len) with
      | none => none
      | some items =>
        if m = activeMagic then some (.act off body :: items)
        else if m = freeMagic then some (.free off len :: items)
        else none
    | _, _ => none

def summary : Nat → List Seg → List Item
  | _, [] => []
  | off, s :: ss =>
    (if s.active then .act off s.body else .free off s.size) :: summary (off + s.size) ss

theorem walk_render (segs : List Seg) (off : Nat)
    (hsz : ∀ s ∈ segs, s.size < 4294967296) (fuel : Nat) (hf : segs.length < fuel) :
    walk fuel off (render segs) = some (summary off segs) := by
  induction segs generalizing off fuel with
  | nil =>
    cases fuel with
    | zero => omega
    | succ f => simp [walk, render, summary]
  | cons s ss ih =>
    cases fuel with
    | zero => omega
    | succ f =>
      have hs : s.size < 4294967296 := hsz s (by simp)
      have hne : render (s :: ss) ≠ [] := by
        simp [render, Seg.bytes, be32]
      have h1 : rd32 (render (s :: ss)) = some (if s.active then activeMagic else freeMagic) := by
        simp only [render, List.flatMap_cons, Seg.bytes, List.append_assoc]
        apply rd32_be32
        split <;> decide
      have h2 : rd32 ((render (s :: ss)).drop 4) = some s.size := by
        simp only [render, List.flatMap_cons, Seg.bytes, List.append_assoc]
        have : (be32 (if s.active then activeMagic else freeMagic)).length = 4 := by simp [be32]
        rw [List.drop_append_of_le_length (by omega), ← this, List.drop_length, List.nil_append]
        exact rd32_be32 _ hs _
      have hlen : (render (s :: ss)).length = s.size + (render ss).length := by
        simp [render, Seg.bytes_length]
      have htake : (render (s :: ss)).take s.size = s.bytes := by
        simp only [render, List.flatMap_cons]
        rw [← Seg.bytes_length, List.take_left']
        rfl
      have hdrop : (render (s :: ss)).drop s.size = render ss := by
        simp only [render, List.flatMap_cons]
        rw [← Seg.bytes_length, List.drop_left']
        rfl
      have hbody : s.bytes.drop 8 = s.body := by
        simp [Seg.bytes, be32]
      have hsz8 : ¬ (s.size = 0 ∨ s.size < 8 ∨ (render (s :: ss)).length < s.size) := by
        simp [Seg.size] at *; omega
      rw [walk, if_neg hne, h1, h2]
      simp only [hsz8, ↓reduceIte, htake, hdrop, hbody]
      rw [ih (off + s.size) (fun x hx => hsz x (by simp [hx])) f (by simp at hf; omega)]
      cases hsa : s.active <;> simp [summary, hsa, activeMagic, freeMagic]

end Chain
