package main

import (
	"encoding/hex"
	"encoding/json"
	"fmt"
	"math/rand"
	"net/url"
	"sort"
	"strconv"
	"strings"

	"github.com/smhanov/syzgydb"
)

// the handlers' own request types (copied from rest.go) so that "decode ok?" is decided by the same decoder
type createBody struct {
	Name           string `json:"name"`
	DistanceMethod string `json:"distance_function"`
	DimensionCount int    `json:"vector_size"`
	Quantization   int    `json:"quantization"`
}
type insertRec struct {
	ID       uint64            `json:"id"`
	Vector   []float64         `json:"vector,omitempty"`
	Text     string            `json:"text,omitempty"`
	Metadata map[string]string `json:"metadata"`
}
type updateBody struct {
	Metadata map[string]string `json:"metadata"`
}
type searchBody struct {
	Vector    []float64 `json:"vector,omitempty"`
	Text      string    `json:"text,omitempty"`
	Offset    int       `json:"offset,omitempty"`
	Limit     int       `json:"limit,omitempty"`
	Radius    float64   `json:"radius,omitempty"`
	K         int       `json:"k,omitempty"`
	Precision string    `json:"precision,omitempty"`
	Filter    string    `json:"filter,omitempty"`
}

func b01(b bool) string {
	if b {
		return "1"
	}
	return "0"
}

// describe renders the decoded body the way the Lean REST model expects it.
func describe(method, path, rawQuery string, body []byte) string {
	dec := func(v any) bool { return json.NewDecoder(strings.NewReader(string(body))).Decode(v) == nil }
	switch {
	case path == "/api/v1/collections" && method == "POST":
		var c createBody
		ok := dec(&c)
		return fmt.Sprintf("C %s %s %s %d %d", b01(ok), hexW([]byte(c.Name)), hexW([]byte(c.DistanceMethod)), c.DimensionCount, c.Quantization)
	case strings.HasSuffix(path, "/records") && method == "POST":
		var recs []insertRec
		ok := dec(&recs)
		parts := []string{"I", b01(ok), strconv.Itoa(len(recs))}
		for _, r := range recs {
			vl := "-"
			if r.Vector != nil {
				vl = strconv.Itoa(len(r.Vector))
			}
			md, _ := json.Marshal(r.Metadata)
			parts = append(parts, fmt.Sprint(r.ID), vl, b01(r.Text != ""), hexW(md))
		}
		return strings.Join(parts, " ")
	case strings.Contains(path, "/records/") && method == "PUT":
		var u updateBody
		ok := dec(&u)
		md, _ := json.Marshal(u.Metadata)
		return fmt.Sprintf("U %s %s", b01(ok), hexW(md))
	case strings.HasSuffix(path, "/search") && (method == "GET" || method == "POST"):
		var sb searchBody
		ok := true
		if method == "GET" {
			q, _ := url.ParseQuery(rawQuery)
			sb.Offset, _ = strconv.Atoi(q.Get("offset"))
			sb.Limit, _ = strconv.Atoi(q.Get("limit"))
			sb.Radius, _ = strconv.ParseFloat(q.Get("radius"), 64)
			sb.K, _ = strconv.Atoi(q.Get("k"))
			sb.Text = q.Get("text")
			sb.Filter = q.Get("filter")
		} else {
			ok = dec(&sb)
		}
		vl := "-"
		if sb.Vector != nil {
			vl = strconv.Itoa(len(sb.Vector))
		}
		f := "n"
		if sb.Filter != "" {
			if _, err := syzgydb.BuildFilter(sb.Filter); err != nil {
				f = "b"
			} else {
				f = "o"
			}
		}
		return fmt.Sprintf("S %s %d %s %s %s %s %d %d", b01(ok), sb.K, b01(sb.Radius != 0), vl, b01(sb.Text != ""), f, sb.Offset, sb.Limit)
	}
	return "-"
}

// canonical payload of a real response, in the model's notation
func canonPayload(method, path string, status int, body []byte) string {
	if status != 200 {
		return "-"
	}
	switch {
	case path == "/api/v1/collections" && method == "GET":
		var infos []map[string]any
		if json.Unmarshal(body, &infos) != nil {
			return "unparsable"
		}
		var items []string
		for _, in := range infos {
			name, _ := in["name"].(string)
			items = append(items, fmt.Sprintf("%s:%v", hexW([]byte(name)), in["document_count"]))
		}
		sort.Strings(items)
		if len(items) == 0 {
			return "list -"
		}
		return "list " + strings.Join(items, ",")
	case strings.HasSuffix(path, "/ids") && method == "GET" && strings.Count(path, "/") == 5:
		var ids []uint64
		if json.Unmarshal(body, &ids) != nil {
			return "-"
		}
		return "ids " + joinU(ids)
	case strings.HasSuffix(path, "/search"):
		var out struct {
			Results []struct {
				ID       uint64         `json:"id"`
				Metadata map[string]any `json:"metadata"`
			} `json:"results"`
		}
		if json.Unmarshal(body, &out) != nil {
			return "unparsable"
		}
		var items []string
		for _, r := range out.Results {
			md, _ := json.Marshal(r.Metadata)
			items = append(items, fmt.Sprintf("%d:%s", r.ID, hexW(md)))
		}
		if len(items) == 0 {
			return "page -"
		}
		return "page " + strings.Join(items, ",")
	case method == "GET" && strings.HasPrefix(path, "/api/v1/collections/"):
		var in map[string]any
		if json.Unmarshal(body, &in) != nil || in["dimension_count"] == nil {
			return "-"
		}
		dist := 0
		if in["distance_method"] == "cosine" {
			dist = 1
		}
		return fmt.Sprintf("info %v %d %v %v", in["document_count"], dist, in["dimension_count"], in["quantization"])
	}
	return "-"
}

func restC17(o *Opts) {
	res := NewResult("C17", "rest", o.Seed, o.Tier)
	res.Rule = "request histories (create / list / inspect / drop collections with all creation options; insert or overwrite, update metadata, delete records; ids; listing and vector search; unknown collections and records; malformed bodies) over 1-4 collections against the real server binary, " +
		"with kill -9 + restart at random request boundaries; status code and canonical payload compared with the Lean REST model; distinct = distinct (history, request index)"
	nhist, nreq := 12, 120
	if o.Tier == "thorough" {
		nhist, nreq = 120, 400
	}
	if o.Scenarios > 0 {
		nhist = o.Scenarios
	}
	if o.Ops > 0 {
		nreq = o.Ops
	}
	bin := buildServerBinary(o)
	drv := StartDriver()
	defer drv.Close()
	for h := 0; h < nhist; h++ {
		rng := rand.New(rand.NewSource(o.Seed*977 + int64(h)))
		srv := newRestServer(o, bin, fmt.Sprintf("c17-%d", h))
		if !srv.start() {
			fatal("server did not start: %s", srv.log.String())
		}
		drv.Send("restreset")
		names := []string{"alpha", "b.dat", "Gamma_3", "δ", "e e"}[:1+rng.Intn(4)]
		dims := map[string]int{}
		live := map[string]map[uint64]bool{} // the harness's own record of live ids (oracle, independent of the model)
		var trace []map[string]any
		diverged := false
		hung := 0
		send := func(method, rawPath string, body []byte, why string) {
			if hung >= 2 {
				return
			}
			u, err := url.Parse("http://x" + rawPath)
			if err != nil {
				return
			}
			desc := describe(method, u.Path, u.RawQuery, body)
			model := "(not asked: diverged earlier in this history)"
			if !diverged {
				model = drv.Send(fmt.Sprintf("rest %s %s %s", method, hexW([]byte(u.Path)), desc))
			}
			r := srv.do(method, rawPath, body)
			if r.Status == 0 && (strings.Contains(r.Dropped, "Timeout") || strings.Contains(r.Dropped, "deadline exceeded")) {
				// no answer at all within the client's 20 s: the server is stuck (a lock that is never released, say).
				// Report it, start the server again on its data folder and go on; a history that hangs twice is given up.
				hung++
				t := trace
				if len(t) > 25 {
					t = t[len(t)-25:]
				}
				res.Violate("impl-failure", "C17/no-answer", fmt.Sprintf("%s %s got no answer within 20 s (the requests before it are in the replay)", method, rawPath), map[string]any{"history": h, "request": map[string]any{"method": method, "path": rawPath, "body": abbreviate(string(body), 200)}, "last_requests": t})
				srv.kill()
				if srv.start() {
					drv.Send("restrestart")
				} else {
					hung = 2
				}
			}
			res.Evaluations++
			res.DistinctCase(fmt.Sprintf("%d/%d", h, len(trace)))
			res.Hit(fmt.Sprintf("%s:%d", why, r.Status))
			real := fmt.Sprintf("status %d %s", r.Status, canonPayload(method, u.Path, r.Status, r.Body))
			if r.Status == 0 {
				real = "panic"
			}
			trace = append(trace, map[string]any{"method": method, "path": rawPath, "body": abbreviate(string(body), 200), "impl": abbreviate(real, 200), "model": abbreviate(model, 200)})
			// payloads the model does not predict (search results of vector queries) are compared by status only
			mf := strings.SplitN(model, " ", 3)
			rf := strings.SplitN(real, " ", 3)
			same := model == real || diverged // after the first divergence only the direct oracles below judge
			if !same && len(mf) == 3 && len(rf) == 3 && mf[1] == rf[1] && mf[2] == "-" && strings.HasPrefix(rf[2], "page") {
				same = true
			}
			if !same {
				diverged = true
				t := trace
				if len(t) > 25 {
					t = t[len(t)-25:]
				}
				res.Violate("tie-broken", "tie/rest/"+why, fmt.Sprintf("%s %s: model %s, implementation %s", method, rawPath, abbreviate(model, 200), abbreviate(real, 200)), map[string]any{"history": h, "last_requests": t})
			} else {
				res.TracesValidated++
			}
			// the listing names exactly the live collections (direct oracle)
			if method == "GET" && u.Path == "/api/v1/collections" && r.Status == 200 {
				var want []string
				for c := range dims {
					want = append(want, hexW([]byte(c)))
				}
				sort.Strings(want)
				var got []string
				if p := strings.TrimPrefix(canonPayload(method, u.Path, r.Status, r.Body), "list "); p != "-" {
					for _, it := range strings.Split(p, ",") {
						got = append(got, strings.SplitN(it, ":", 2)[0])
					}
				}
				if strings.Join(got, ",") != strings.Join(want, ",") {
					res.Violate("impl-failure", "C17/listing-names-wrong", fmt.Sprintf("GET /api/v1/collections lists %v, live collections are %v (hex names)", got, want), trace[len(trace)-1])
				}
			}
			// documented status classes (direct oracle on the implementation)
			switch {
			case why == "unknown-collection" && r.Status != 404:
				res.Violate("impl-failure", "C17/unknown-collection-not-404", fmt.Sprintf("%s %s answered %d", method, rawPath, r.Status), trace[len(trace)-1])
			case why == "malformed-body" && strings.Contains(desc, " 0 ") && strings.Fields(desc)[1] == "0" && r.Status != 400 && r.Status != 404:
				res.Violate("impl-failure", "C17/malformed-not-400", fmt.Sprintf("%s %s answered %d", method, rawPath, r.Status), trace[len(trace)-1])
			case strings.HasPrefix(why, "valid-") && (r.Status < 200 || r.Status > 299):
				res.Violate("impl-failure", "C17/valid-request-not-2xx", fmt.Sprintf("%s %s (%s) answered %d", method, rawPath, why, r.Status), trace[len(trace)-1])
			case why == "live-record" && (r.Status < 200 || r.Status > 299):
				res.Violate("impl-failure", "C17/live-record-not-2xx", fmt.Sprintf("%s %s addresses a live record but was answered %d", method, rawPath, r.Status), trace[len(trace)-1])
			case why == "malformed-request" && r.Status != 400 && !(r.Status == 404 && !strings.HasSuffix(u.Path, "/collections")):
				res.Violate("impl-failure", "C17/malformed-not-400", fmt.Sprintf("%s %s %s is malformed but was answered %d", method, rawPath, abbreviate(string(body), 80), r.Status), trace[len(trace)-1])
			case why == "unknown-record" && r.Status != 404:
				res.Violate("impl-failure", "C17/unknown-record-not-404", fmt.Sprintf("%s %s addresses a record that does not exist but was answered %d", method, rawPath, r.Status), trace[len(trace)-1])
			}
			// /ids lists exactly the ids the harness saw acknowledged
			if method == "GET" && strings.HasSuffix(u.Path, "/ids") && r.Status == 200 && why == "valid-ids" {
				var got []uint64
				json.Unmarshal(r.Body, &got)
				sort.Slice(got, func(i, j int) bool { return got[i] < got[j] })
				var want []uint64
				for id := range live[why2coll(u.Path)] {
					want = append(want, id)
				}
				sort.Slice(want, func(i, j int) bool { return want[i] < want[j] })
				if joinU(got) != joinU(want) {
					res.Violate("impl-failure", "C17/ids-wrong", fmt.Sprintf("GET %s lists %s, acknowledged live ids are %s", rawPath, joinU(got), joinU(want)), trace[len(trace)-1])
				}
			}
		}
		lastStatus := func() int {
			var st int
			fmt.Sscanf(fmt.Sprint(trace[len(trace)-1]["impl"]), "status %d", &st)
			return st
		}
		coll := func() string { return names[rng.Intn(len(names))] }
		esc := func(n string) string { return url.PathEscape(n) }
		stop := false
		for i := 0; i < nreq && !stop && hung < 2; i++ {
			n := coll()
			base := "/api/v1/collections/" + esc(n)
			_, exists := dims[n]
			switch k := rng.Intn(100); {
			case k < 8:
				d := 1 + rng.Intn(4)
				q := []int{0, 4, 8, 16, 32, 64}[rng.Intn(6)]
				dist := []string{"euclidean", "cosine"}[rng.Intn(2)]
				why := "valid-create"
				if exists {
					why = "create-duplicate"
				} else {
					dims[n] = d
				}
				send("POST", "/api/v1/collections", []byte(jsonS(map[string]any{"name": n, "distance_function": dist, "vector_size": d, "quantization": q})), why)
			case k < 12:
				send("GET", "/api/v1/collections", nil, "valid-list")
			case k < 18:
				why := "valid-info"
				if !exists {
					why = "unknown-collection"
				}
				send("GET", base, nil, why)
			case k < 24:
				why := "valid-ids"
				if !exists {
					why = "unknown-collection"
				}
				send("GET", base+"/ids", nil, why)
			case k < 27:
				send("DELETE", base, nil, "valid-drop")
				delete(dims, n)
				delete(live, n)
			case k < 55:
				d := dims[n]
				cnt := 1 + rng.Intn(3)
				var recs []map[string]any
				for j := 0; j < cnt; j++ {
					v := make([]float64, d)
					for x := range v {
						v[x] = rng.Float64()
					}
					recs = append(recs, map[string]any{"id": genID(rng, 12), "vector": v, "metadata": map[string]string{"k": fmt.Sprint(rng.Intn(5)), "z<&>": "é\"q"}})
				}
				why := "valid-insert"
				if !exists {
					why = "unknown-collection"
				}
				send("POST", base+"/records", []byte(jsonS(recs)), why)
				if exists && lastStatus()/100 == 2 {
					if live[n] == nil {
						live[n] = map[uint64]bool{}
					}
					for _, rec := range recs {
						live[n][rec["id"].(uint64)] = true
					}
				}
			case k < 65:
				id := genID(rng, 14)
				why := "unknown-collection"
				if exists {
					why = map[bool]string{true: "live-record", false: "unknown-record"}[live[n][id]]
				}
				send("PUT", fmt.Sprintf("%s/records/%d/metadata", base, id), []byte(jsonS(map[string]any{"metadata": map[string]string{"u": fmt.Sprint(i)}})), why)
			case k < 73:
				id := genID(rng, 14)
				why := "unknown-collection"
				if exists {
					why = map[bool]string{true: "live-record", false: "unknown-record"}[live[n][id]]
				}
				send("DELETE", fmt.Sprintf("%s/records/%d", base, id), nil, why)
				if exists && lastStatus()/100 == 2 {
					delete(live[n], id)
				}
			case k < 83:
				why := "valid-listing"
				if !exists {
					why = "unknown-collection"
				}
				if rng.Intn(2) == 0 {
					send("POST", base+"/search", []byte(jsonS(map[string]any{"offset": rng.Intn(4), "limit": rng.Intn(5)})), why)
				} else {
					send("GET", fmt.Sprintf("%s/search?offset=%d&limit=%d", base, rng.Intn(4), rng.Intn(5)), nil, why)
				}
			case k < 90:
				d := dims[n]
				v := make([]float64, d)
				why := "valid-search"
				if !exists {
					why = "unknown-collection"
				}
				body := map[string]any{"vector": v, "k": 1 + rng.Intn(4)}
				if rng.Intn(3) == 0 {
					body["filter"] = "k == '1' OR u EXISTS"
				}
				send("POST", base+"/search", []byte(jsonS(body)), why)
			case k < 91:
				// malformed in one place, on every route that takes input: a distance function that does not exist, a record id
				// that is not an unsigned decimal, a metadata body that is not JSON — 400 whatever else is right about the request
				switch rng.Intn(5) {
				case 4:
					// a record with neither vector nor text, alone or behind a valid one
					recs := []map[string]any{{"id": genID(rng, 12), "metadata": map[string]string{"k": "v"}}}
					if rng.Intn(2) == 0 && exists {
						recs = append([]map[string]any{{"id": genID(rng, 12), "vector": make([]float64, dims[n]), "metadata": map[string]string{"k": "w"}}}, recs...)
					}
					send("POST", base+"/records", []byte(jsonS(recs)), "malformed-request")
				case 0:
					df := []any{"manhattan", "", "COSINE ", 5}[rng.Intn(4)]
					send("POST", "/api/v1/collections", []byte(jsonS(map[string]any{"name": n, "distance_function": df, "vector_size": 2, "quantization": 64})), "malformed-request")
				case 1:
					bad := []string{"abc", "-1", "1.5", "18446744073709551616", "0x10", "1e3"}[rng.Intn(6)]
					send("PUT", base+"/records/"+bad+"/metadata", []byte(jsonS(map[string]any{"metadata": map[string]string{"u": "x"}})), "malformed-request")
				case 2:
					bad := []string{"abc", "-1", "1.5", "18446744073709551616", "0x10", "1e3"}[rng.Intn(6)]
					send("DELETE", base+"/records/"+bad, nil, "malformed-request")
				default:
					id := genID(rng, 14)
					send("PUT", fmt.Sprintf("%s/records/%d/metadata", base, id), []byte([]string{"{", "[1", `{"metadata":5}`, `"x"`}[rng.Intn(4)]), "malformed-request")
				}
			case k < 96:
				p := []string{base + "/records", "/api/v1/collections", base + "/search"}[rng.Intn(3)]
				send("POST", p, []byte([]string{"{", "[1", `{"name":5}`, `[{"id":"x"}]`, ""}[rng.Intn(5)]), "malformed-body")
			default:
				// kill -9 and restart on the same data folder. What an exhaustive vector search answers
				// (ids, distances, order) is part of "served unchanged": it depends on the stored vectors,
				// the metric and the quantization, none of which the listing shows.
				probe := func(c string) string {
					v := make([]float64, dims[c])
					for x := range v {
						v[x] = 0.25 + float64(x)*0.5
					}
					r := srv.do("POST", "/api/v1/collections/"+esc(c)+"/search", []byte(jsonS(map[string]any{"vector": v, "k": 6, "precision": "exact"})))
					// canonical form that does not depend on the order among equal distances: the distance
					// sequence, and the ids grouped by distance (the last group may be cut by k: only its size counts)
					var out struct {
						Results []struct {
							ID       uint64  `json:"id"`
							Distance float64 `json:"distance"`
						} `json:"results"`
					}
					if r.Status != 200 || json.Unmarshal(r.Body, &out) != nil {
						return fmt.Sprintf("%d %s", r.Status, abbreviate(string(r.Body), 100))
					}
					var parts []string
					for i := 0; i < len(out.Results); {
						j := i
						var grp []uint64
						for j < len(out.Results) && out.Results[j].Distance == out.Results[i].Distance {
							grp = append(grp, out.Results[j].ID)
							j++
						}
						sort.Slice(grp, func(a, b int) bool { return grp[a] < grp[b] })
						if j == len(out.Results) && len(out.Results) == 6 {
							parts = append(parts, fmt.Sprintf("%v:%d-of-tie", out.Results[i].Distance, len(grp)))
						} else {
							parts = append(parts, fmt.Sprintf("%v:%v", out.Results[i].Distance, grp))
						}
						i = j
					}
					return "200 " + strings.Join(parts, " ")
				}
				before := map[string]string{}
				for c := range dims {
					before[c] = probe(c)
				}
				srv.kill()
				if !srv.start() {
					res.Violate("impl-failure", "C17/restart-failed", "the server did not come back on its data folder: "+abbreviate(srv.log.String(), 300), map[string]any{"history": h})
					stop = true
					break
				}
				drv.Send("restrestart")
				res.Hit("restart")
				// everything must be served unchanged: compare the full observable state with the model
				send("GET", "/api/v1/collections", nil, "after-restart-list")
				for _, c := range names {
					if _, ok := dims[c]; ok {
						send("GET", "/api/v1/collections/"+esc(c), nil, "after-restart-info")
						send("POST", "/api/v1/collections/"+esc(c)+"/search", []byte("{}"), "after-restart-listing")
						if after := probe(c); after != before[c] {
							res.Violate("impl-failure", "C17/search-differs-after-restart", fmt.Sprintf("collection %q: the same exhaustive k-nearest search answered %s before the restart and %s after it", c, abbreviate(before[c], 160), abbreviate(after, 160)),
								map[string]any{"history": h, "collection": c, "before": before[c], "after": after})
						}
					}
				}
			}
		}
		if h < 2 && len(trace) > 3 {
			res.Sample(map[string]any{"history": h, "first_requests": trace[:3]})
		}
		srv.kill()
	}
	res.Write(o.Out)
}

var _ = hex.EncodeToString

func init() { subcommands["rest-C17"] = restC17 }

// collection name of a /api/v1/collections/<name>/... path (already unescaped)
func why2coll(path string) string {
	parts := strings.Split(path, "/")
	if len(parts) > 4 {
		return parts[4]
	}
	return ""
}
