package main

import (
	"bytes"
	"encoding/json"
	"fmt"
	"math"
	"math/rand"
	"os"
	"path/filepath"
	"reflect"
	"strings"

	"github.com/smhanov/syzgydb"
)

func genJSONValue(rng *rand.Rand, depth int) any {
	strs := []string{"", "a", "héllo", "日本", "<b>&amp;</b>", "quote\"back\\slash", "line\nbreak\ttab", " ", "emoji😀", "nul\x00byte", "/slash",
		// characters that mean something to a formatter, a template or a JSON-in-HTML encoder
		"50% off", "100%", "%d %s %v", "%%", "%!(EXTRA)", "{}", "[1,2]", "\u2028\u2029", "\\n", "${x}", "</script>", "\ufeffbom"}
	switch k := rng.Intn(10); {
	case depth <= 0 || k < 4:
		switch rng.Intn(6) {
		case 0:
			return nil
		case 1:
			return rng.Intn(2) == 0
		case 2:
			return float64(rng.Intn(2000) - 1000)
		case 3:
			return rng.Float64() * math.Pow(10, float64(rng.Intn(20)-10))
		default:
			if rng.Intn(60) == 0 {
				// very long strings: one line of the export beyond the usual buffer sizes (4 KiB, 64 KiB, 1 MiB)
				return strings.Repeat("long text ", []int{500, 7000, 110000}[rng.Intn(3)])
			}
			return strs[rng.Intn(len(strs))]
		}
	case k < 7:
		n := rng.Intn(4)
		a := make([]any, n)
		for i := range a {
			a[i] = genJSONValue(rng, depth-1)
		}
		return a
	default:
		n := rng.Intn(4)
		o := map[string]any{}
		for i := 0; i < n; i++ {
			o[strs[rng.Intn(len(strs))]+fmt.Sprint(i)] = genJSONValue(rng, depth-1)
		}
		return o
	}
}

func genComponent(rng *rand.Rand) float64 {
	switch rng.Intn(7) {
	case 0:
		return float64(math.Float32frombits(rng.Uint32()&0x3fffffff | 0x30000000)) // float32 grid, moderate magnitude
	case 1:
		return rng.Float64() * 1e-9
	case 2:
		return 0.123456789012345678
	case 3:
		return (rng.Float64()*2 - 1) * 1e6
	case 4:
		return []float64{0, 1, -1, 0.5, 1.0 / 3, 1e-300, 123456.789, 1e19, -3e25, 9223372036854775808, -9223372036854775808, 4294967296, 1e15}[rng.Intn(13)] // whole numbers beyond int64 too
	default:
		return rng.Float64()*2 - 1
	}
}

func dumpC20(o *Opts) {
	res := NewResult("C20", "dump", o.Seed, o.Tier)
	res.Rule = "random collections (ids incl. 0 and 2^64-1; fractional, tiny, large and float32-grid components; metadata = arbitrary JSON values: objects, arrays, scalars, null, nested, escapes, non-ASCII, HTML-significant characters), 5 quantizations x 2 metrics; " +
		"ExportJSON output must be valid JSON and ImportJSON of it into a fresh file must reproduce options, ids, JSON-equal metadata and identical stored vectors; distinct = distinct collection"
	n := 250
	if o.Tier == "thorough" {
		n = 4000
	}
	if o.Scenarios > 0 {
		n = o.Scenarios
	}
	rng := rand.New(rand.NewSource(o.Seed))
	for ci := 0; ci < n; ci++ {
		q := quants[ci%5]
		metric := (ci / 5) % 2
		dim := 1 + rng.Intn(5)
		src := filepath.Join(o.Scratch, "exp.dat")
		dst := filepath.Join(o.Scratch, "imp.dat")
		os.Remove(src)
		os.Remove(dst)
		c, err := syzgydb.NewCollection(syzgydb.CollectionOptions{Name: src, DistanceMethod: metric, DimensionCount: dim, Quantization: q, FileMode: syzgydb.CreateAndOverwrite})
		if err != nil {
			fatal("NewCollection: %v", err)
		}
		ndocs := rng.Intn(8)
		type rec struct {
			ID   uint64
			Vec  []float64
			Meta string
		}
		var recs []rec
		for i := 0; i < ndocs; i++ {
			id := uint64(rng.Intn(50))
			if rng.Intn(8) == 0 {
				id = []uint64{0, math.MaxUint64, 1 << 53, 1<<53 + 1}[rng.Intn(4)]
			}
			v := make([]float64, dim)
			for j := range v {
				v[j] = genComponent(rng)
			}
			md, _ := json.Marshal(genJSONValue(rng, 3))
			c.AddDocument(id, v, md)
			recs = append(recs, rec{id, v, string(md)})
		}
		res.Evaluations++
		res.DistinctCase(fmt.Sprint(ci))
		res.Hit(fmt.Sprintf("config:q%d:m%d", q, metric))
		replay := map[string]any{"quant": q, "metric": metric, "dim": dim, "records": recs}
		var buf bytes.Buffer
		experr := syzgydb.ExportJSON(c, &buf)
		if experr != nil {
			res.Violate("impl-failure", "C20/export-failed", fmt.Sprintf("ExportJSON failed: %v", experr), replay)
			c.Close()
			continue
		}
		if !json.Valid(buf.Bytes()) {
			res.Violate("impl-failure", "C20/export-not-json", "ExportJSON output is not valid JSON: "+abbreviate(buf.String(), 200), replay)
			c.Close()
			continue
		}
		if ci < 2 {
			res.Sample(map[string]any{"export": abbreviate(buf.String(), 400)})
		}
		imperr := func() (err error) {
			defer func() {
				if r := recover(); r != nil {
					err = fmt.Errorf("panic: %v", r)
				}
			}()
			return syzgydb.ImportJSON(dst, bytes.NewReader(buf.Bytes()))
		}()
		if imperr != nil {
			res.Violate("impl-failure", "C20/import-failed", fmt.Sprintf("ImportJSON of the exported text failed: %v", imperr), replay)
			c.Close()
			continue
		}
		c2, err := syzgydb.NewCollection(syzgydb.CollectionOptions{Name: dst, FileMode: syzgydb.ReadWrite})
		if err != nil {
			res.Violate("impl-failure", "C20/import-unopenable", fmt.Sprintf("the imported file cannot be opened: %v", err), replay)
			c.Close()
			continue
		}
		o1, o2 := c.GetOptions(), c2.GetOptions()
		if o1.DimensionCount != o2.DimensionCount || o1.Quantization != o2.Quantization || o1.DistanceMethod != o2.DistanceMethod {
			res.Violate("impl-failure", "C20/options-differ", fmt.Sprintf("options %d/%d/%d became %d/%d/%d", o1.DistanceMethod, o1.DimensionCount, o1.Quantization, o2.DistanceMethod, o2.DimensionCount, o2.Quantization), replay)
		}
		ids1, ids2 := c.GetAllIDs(), c2.GetAllIDs()
		if !eqU(ids1, ids2) {
			res.Violate("impl-failure", "C20/ids-differ", fmt.Sprintf("ids %v became %v", ids1, ids2), replay)
		} else {
			for _, id := range ids1 {
				d1, _ := c.GetDocument(id)
				d2, _ := c2.GetDocument(id)
				var j1, j2 any
				json.Unmarshal(d1.Metadata, &j1)
				if err := json.Unmarshal(d2.Metadata, &j2); err != nil || !reflect.DeepEqual(j1, j2) {
					res.Violate("impl-failure", "C20/metadata-differs", fmt.Sprintf("document %d: metadata %s became %s", id, abbreviate(string(d1.Metadata), 80), abbreviate(string(d2.Metadata), 80)), replay)
				}
				for k := range d1.Vector {
					if math.Float64bits(d1.Vector[k]) != math.Float64bits(d2.Vector[k]) {
						res.Violate("impl-failure", fmt.Sprintf("C20/vector-differs/q%d", q), fmt.Sprintf("document %d component %d: stored %v became %v (quantization %d)", id, k, d1.Vector[k], d2.Vector[k], q), replay)
						break
					}
				}
			}
			res.TracesValidated++
		}
		c.Close()
		c2.Close()
	}
	res.Write(o.Out)
}

func init() { subcommands["dump-C20"] = dumpC20 }
