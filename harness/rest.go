package main

import (
	"bytes"
	"encoding/json"
	"fmt"
	"io"
	"math/rand"
	"net"
	"net/http"
	"net/url"
	"os"
	"os/exec"
	"path/filepath"
	"sort"
	"strings"
	"syscall"
	"time"
)

// ---------- the real server binary ----------

type restServer struct {
	bin    string
	folder string
	addr   string
	cmd    *exec.Cmd
	client *http.Client
	log    *bytes.Buffer
}

func freePort() string {
	l, err := net.Listen("tcp", "127.0.0.1:0")
	if err != nil {
		fatal("listen: %v", err)
	}
	defer l.Close()
	return l.Addr().String()
}

func (s *restServer) start() bool {
	s.addr = freePort()
	s.log = &bytes.Buffer{}
	s.cmd = exec.Command(s.bin, "--serve", "--data-folder", s.folder, "--syzgy-host", s.addr, "--html-root", "")
	s.cmd.Dir = filepath.Dir(s.folder)
	s.cmd.Stdout = s.log
	s.cmd.Stderr = s.log
	if err := s.cmd.Start(); err != nil {
		fatal("cannot start server %s: %v", s.bin, err)
	}
	s.client = &http.Client{Timeout: 20 * time.Second, CheckRedirect: func(*http.Request, []*http.Request) error { return http.ErrUseLastResponse }}
	for i := 0; i < 200; i++ {
		c, err := net.DialTimeout("tcp", s.addr, 200*time.Millisecond)
		if err == nil {
			c.Close()
			return true
		}
		time.Sleep(25 * time.Millisecond)
	}
	return false
}

func (s *restServer) alive() bool {
	c, err := net.DialTimeout("tcp", s.addr, 500*time.Millisecond)
	if err != nil {
		time.Sleep(200 * time.Millisecond)
		c, err = net.DialTimeout("tcp", s.addr, time.Second)
		if err != nil {
			return false
		}
	}
	c.Close()
	// "keeps serving": a listener that accepts but never answers (a handler died holding the server
	// mutex) is not alive
	probe := &http.Client{Timeout: 5 * time.Second}
	resp, err := probe.Get("http://" + s.addr + "/api/v1/collections")
	if err != nil {
		return false
	}
	io.Copy(io.Discard, resp.Body)
	resp.Body.Close()
	return true
}

func (s *restServer) kill() {
	if s.cmd != nil && s.cmd.Process != nil {
		s.cmd.Process.Signal(syscall.SIGKILL)
		s.cmd.Wait()
	}
}

type restResp struct {
	Status  int // 0 = no complete HTTP response (dropped connection)
	Body    []byte
	Dropped string
}

// do sends one request; rawPath is used verbatim as the request target.
func (s *restServer) do(method, rawPath string, body []byte) restResp {
	req, err := http.NewRequest(method, "http://"+s.addr+"/", bytes.NewReader(body))
	if err != nil {
		return restResp{Dropped: err.Error()}
	}
	u, perr := url.Parse("http://" + s.addr + rawPath)
	if perr != nil {
		return restResp{Status: -1, Dropped: "unparsable target " + perr.Error()}
	}
	req.URL = u
	if body != nil {
		req.Header.Set("Content-Type", "application/json")
	}
	resp, err := s.client.Do(req)
	if err != nil {
		return restResp{Dropped: err.Error()}
	}
	defer resp.Body.Close()
	b, err := io.ReadAll(resp.Body)
	if err != nil {
		return restResp{Dropped: "body: " + err.Error()}
	}
	return restResp{Status: resp.StatusCode, Body: b}
}

// snapshot of everything observable: collections, options, ids and metadata (through listings)
func (s *restServer) observe() (string, bool) {
	r := s.do("GET", "/api/v1/collections", nil)
	if r.Status != 200 {
		return fmt.Sprintf("list-failed:%d:%s", r.Status, r.Dropped), false
	}
	var infos []map[string]any
	if err := json.Unmarshal(r.Body, &infos); err != nil {
		return "list-unparsable", false
	}
	var parts []string
	for _, in := range infos {
		name, _ := in["name"].(string)
		line := fmt.Sprintf("%s|n=%v|dim=%v|q=%v|dist=%v", name, in["document_count"], in["dimension_count"], in["quantization"], in["distance_method"])
		sr := s.do("POST", "/api/v1/collections/"+url.PathEscape(name)+"/search", []byte(`{}`))
		if sr.Status == 200 {
			var out struct {
				Results []struct {
					ID       uint64         `json:"id"`
					Metadata map[string]any `json:"metadata"`
				} `json:"results"`
			}
			json.Unmarshal(sr.Body, &out)
			for _, x := range out.Results {
				m, _ := json.Marshal(x.Metadata)
				line += fmt.Sprintf("|%d=%s", x.ID, m)
			}
		} else {
			line += fmt.Sprintf("|listing-failed:%d", sr.Status)
		}
		parts = append(parts, line)
	}
	sort.Strings(parts)
	return strings.Join(parts, "\n"), true
}

// files in and around the data folder (relative to its parent)
func dirSnapshot(root string) map[string]int64 {
	out := map[string]int64{}
	filepath.Walk(root, func(p string, info os.FileInfo, err error) error {
		if err == nil && !info.IsDir() {
			rel, _ := filepath.Rel(root, p)
			out[rel] = info.Size()
		}
		return nil
	})
	return out
}

func buildServerBinary(o *Opts) string {
	bin := os.Getenv("VERIF_SYZGY_BIN")
	if bin != "" {
		return bin
	}
	bin = filepath.Join(o.Scratch, "syzgy")
	cmd := exec.Command("go", "build", "-o", bin, "./cmd")
	cmd.Dir = "/repo"
	if repo := os.Getenv("VERIF_REPO"); repo != "" {
		cmd.Dir = repo
	}
	cmd.Env = append(os.Environ(), "GOFLAGS=-mod=mod", "GOPROXY=off", "GOSUMDB=off", "GOTOOLCHAIN=local")
	if out, err := cmd.CombinedOutput(); err != nil {
		fatal("go build ./cmd: %v\n%s", err, out)
	}
	return bin
}

func newRestServer(o *Opts, bin, tag string) *restServer {
	root := filepath.Join(o.Scratch, "rest-"+tag)
	os.RemoveAll(root)
	os.MkdirAll(filepath.Join(root, "data"), 0755)
	return &restServer{bin: bin, folder: filepath.Join(root, "data")}
}

// ---------- C19: names cannot leave the data folder ----------

func restC19(o *Opts) {
	res := NewResult("C19", "rest-names", o.Seed, o.Tier)
	res.Rule = "collection names in create requests and path segments in collection URLs containing separators, '..' components, absolute paths, empty names, NUL, percent-encoded separators; the real server binary runs on a data folder inside a scratch root; " +
		"after every request the file tree of the scratch root is compared: anything created, modified or deleted outside the data folder is a violation; distinct = distinct name"
	n := 400
	if o.Tier == "thorough" {
		n = 6000
	}
	if o.Scenarios > 0 {
		n = o.Scenarios
	}
	rng := rand.New(rand.NewSource(o.Seed))
	bin := buildServerBinary(o)
	srv := newRestServer(o, bin, "c19")
	root := filepath.Dir(srv.folder)
	// a victim file next to the data folder that a traversal could overwrite or delete
	os.WriteFile(filepath.Join(root, "victim.dat"), []byte("do not touch"), 0644)
	os.MkdirAll(filepath.Join(root, "other"), 0755)
	os.WriteFile(filepath.Join(root, "other", "x.dat"), []byte("do not touch either"), 0644)
	os.MkdirAll(filepath.Join(root, "data-backup"), 0755)
	os.MkdirAll(filepath.Join(root, "database"), 0755)
	if !srv.start() {
		fatal("server did not start: %s", srv.log.String())
	}
	defer srv.kill()
	pieces := []string{"..", "..", ".", "", "a", "b", "n1", "n2", "victim", "other", "x", "data", "data_old", "datax", "data-backup", "etc", "tmp", "c d", "é", "%2e%2e", "..%2f", "\x00"}
	seps := []string{"/", "/", "\\", "//"}
	genName := func() string {
		switch rng.Intn(6) {
		case 0:
			return []string{"", ".", "..", "/", "../victim", "../other/x", "/tmp/verif-escape", "../../escape", "..\\victim", "a/../../victim", "./a", "a/b", "/", "data/../../victim", "victim/..", "x\x00y", "../fresh", "../other/fresh", "a/../../fresh2",
				// siblings whose names begin like the data folder's own name (a textual prefix test on the resolved path lets them through)
				"../data", "../data_old", "../datax", "../data-backup/evil", "sub/../../datax", "../data.bak", "../database/x", "n1/../../data2"}[rng.Intn(27)]
		default:
			k := 1 + rng.Intn(4)
			var p []string
			for i := 0; i < k; i++ {
				p = append(p, pieces[rng.Intn(len(pieces))])
			}
			return strings.Join(p, seps[rng.Intn(len(seps))])
		}
	}
	before := dirSnapshot(root)
	outside := func(rel string) bool { return !strings.HasPrefix(rel, "data"+string(filepath.Separator)) }
	check := func(what string, name string, replay map[string]any) {
		after := dirSnapshot(root)
		for f, sz := range after {
			if old, ok := before[f]; (!ok || old != sz) && outside(f) {
				res.Violate("impl-failure", "C19/file-outside-data-folder/"+what, fmt.Sprintf("%s with name %q created or modified %s outside the data folder", what, name, f), replay)
			}
		}
		for f := range before {
			if _, ok := after[f]; !ok && outside(f) {
				res.Violate("impl-failure", "C19/file-deleted-outside-data-folder/"+what, fmt.Sprintf("%s with name %q deleted %s outside the data folder", what, name, f), replay)
			}
		}
		before = after
	}
	for i := 0; i < n; i++ {
		name := genName()
		res.Evaluations++
		res.DistinctCase(name)
		body, _ := json.Marshal(map[string]any{"name": name, "distance_function": "euclidean", "vector_size": 2, "quantization": 64})
		replay := map[string]any{"name": name}
		r := srv.do("POST", "/api/v1/collections", body)
		res.Hit(fmt.Sprintf("create:%d", r.Status))
		check("create", name, replay)
		if !srv.alive() {
			res.Violate("impl-failure", "C19/server-died", fmt.Sprintf("server died on create %q", name), replay)
			srv.start()
		}
		// use and drop through the URL (raw and percent-encoded forms of the same name)
		for _, seg := range []string{name, url.PathEscape(name), strings.ReplaceAll(url.PathEscape(name), "%2F", "%2f")} {
			if strings.ContainsAny(seg, "\x00 ?#") || strings.Contains(seg, "%00") {
				continue
			}
			ins, _ := json.Marshal([]map[string]any{{"id": 1, "vector": []float64{0, 1}, "metadata": map[string]string{"k": "v"}}})
			srv.do("POST", "/api/v1/collections/"+seg+"/records", ins)
			check("insert", name, replay)
			r := srv.do("DELETE", "/api/v1/collections/"+seg, nil)
			res.Hit(fmt.Sprintf("drop:%d", r.Status))
			check("drop", name, replay)
		}
		if i < 3 {
			res.Sample(map[string]any{"name": name, "create_status": r.Status})
		}
		res.TracesValidated++
	}
	res.Write(o.Out)
}

func init() {
	subcommands["rest-C19"] = restC19
}
