package main

import (
	"flag"
	"fmt"
	"io"
	"log"
	"os"
)

type Opts struct {
	Seed      int64
	Tier      string
	Out       string
	Scratch   string
	Scenarios int
	Ops       int
	Replay    string
	Start     int
	Journal   string
}

var subcommands = map[string]func(o *Opts){}

func main() {
	log.SetOutput(io.Discard)
	if len(os.Args) < 2 {
		fmt.Fprintln(os.Stderr, "usage: corr <sub> [flags]")
		os.Exit(2)
	}
	sub := os.Args[1]
	fs := flag.NewFlagSet(sub, flag.ExitOnError)
	o := &Opts{}
	fs.Int64Var(&o.Seed, "seed", 1, "PRNG seed")
	fs.StringVar(&o.Tier, "tier", "quick", "quick|thorough")
	fs.StringVar(&o.Out, "out", "-", "result json")
	fs.StringVar(&o.Scratch, "scratch", "", "scratch directory")
	fs.IntVar(&o.Scenarios, "scenarios", 0, "number of scenarios (0 = tier default)")
	fs.IntVar(&o.Ops, "ops", 0, "ops per scenario (0 = tier default)")
	fs.StringVar(&o.Replay, "replay", "", "replay file")
	fs.IntVar(&o.Start, "start", 0, "first scenario index")
	fs.StringVar(&o.Journal, "journal", "", "journal file (last started scenario/op; survives a crash)")
	fs.Parse(os.Args[2:])
	if o.Scratch == "" {
		d, err := os.MkdirTemp("", "verif-scratch-")
		if err != nil {
			fatal("mkdtemp: %v", err)
		}
		o.Scratch = d
		defer os.RemoveAll(d)
	}
	f, ok := subcommands[sub]
	if !ok {
		fmt.Fprintf(os.Stderr, "unknown subcommand %s\n", sub)
		os.Exit(2)
	}
	f(o)
}
