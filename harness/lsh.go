package main

import (
	"fmt"
	"math"
	"math/rand"
	"os"
	"os/exec"
	"path/filepath"
	"sort"
	"strings"
	"sync"
	"time"

	"github.com/smhanov/syzgydb"
)

// treeInv evaluates the C05 index invariant on the dumped real forest:
// no missing child; per tree the multiset of leaf ids equals the live ids (each once);
// every id sits in the leaf its *stored* vector routes to.
func treeInv(c *syzgydb.Collection, live []uint64) error {
	forest := c.VerifDumpForest()
	stored := map[uint64][]float64{}
	for _, id := range live {
		d, err := c.GetDocument(id)
		if err != nil {
			return fmt.Errorf("live document %d unreadable: %v", id, err)
		}
		stored[id] = d.Vector
	}
	for ti, root := range forest {
		if root == nil {
			return fmt.Errorf("tree %d: root is nil", ti)
		}
		count := map[uint64]int{}
		var walk func(n *syzgydb.VerifNode) error
		walk = func(n *syzgydb.VerifNode) error {
			if n.Leaf {
				for _, id := range n.IDs {
					count[id]++
				}
				return nil
			}
			if n.Left == nil || n.Right == nil {
				return fmt.Errorf("tree %d: internal node with a nil child", ti)
			}
			if err := walk(n.Left); err != nil {
				return err
			}
			return walk(n.Right)
		}
		if err := walk(root); err != nil {
			return err
		}
		for id, k := range count {
			if _, ok := stored[id]; !ok {
				return fmt.Errorf("tree %d references dead id %d", ti, id)
			}
			if k != 1 {
				return fmt.Errorf("tree %d lists id %d %d times", ti, id, k)
			}
		}
		for _, id := range live {
			if count[id] == 0 {
				return fmt.Errorf("tree %d misses live id %d", ti, id)
			}
		}
		// routing
		for _, id := range live {
			n := root
			for !n.Leaf {
				_, right := c.VerifSide(stored[id], n.Normal, n.B)
				if right {
					n = n.Right
				} else {
					n = n.Left
				}
			}
			found := false
			for _, x := range n.IDs {
				if x == id {
					found = true
				}
			}
			if !found {
				return fmt.Errorf("tree %d: id %d is not in the leaf its stored vector routes to", ti, id)
			}
		}
	}
	return nil
}

type lshOp struct {
	K   string    `json:"k"` // add del upd reopen
	ID  uint64    `json:"id"`
	Vec []float64 `json:"vec,omitempty"`
}

type lshScenario struct {
	Dim, Quant, Metric int
	Full               bool
	Ops                []lshOp
}

// runLSHScenario executes ops on a fresh collection, checking TreeInv and the observable
// consequences of C05 after every op. Returns the first failure (signature, detail) or "".
func runLSHScenario(o *Opts, res *Result, sc *lshScenario, tag string, full bool, drv *Driver) (string, string) {
	hp := newHPTable()
	srng := rand.New(rand.NewSource(int64(len(sc.Ops))*31 + int64(sc.Dim)))
	path := filepath.Join(o.Scratch, "lsh-"+tag+".dat")
	os.Remove(path)
	defer os.Remove(path)
	c, err := syzgydb.NewCollection(syzgydb.CollectionOptions{Name: path, DistanceMethod: sc.Metric, DimensionCount: sc.Dim, Quantization: sc.Quant, FileMode: syzgydb.CreateAndOverwrite})
	if err != nil {
		return "C05/open", err.Error()
	}
	defer func() {
		if c != nil {
			c.Close()
		}
	}()
	pendSig, pendDetail := "", "" // first model divergence; the scenario goes on, the oracles may still find a failing input
	live := map[uint64]bool{}
	liveIDs := func() []uint64 {
		ids := make([]uint64, 0, len(live))
		for id := range live {
			ids = append(ids, id)
		}
		sort.Slice(ids, func(i, j int) bool { return ids[i] < ids[j] })
		return ids
	}
	for i, op := range sc.Ops {
		var before []*syzgydb.VerifNode
		var oldVec []float64
		if drv != nil && (op.K == "add" || (op.K == "del" && live[op.ID])) && (len(live) < 300 || i%8 == 0) {
			before = c.VerifDumpForest()
			if live[op.ID] {
				d, _ := c.GetDocument(op.ID)
				oldVec = d.Vector
			}
		}
		wasLive := live[op.ID]
		switch op.K {
		case "add":
			md := []byte(fmt.Sprintf(`{"n":%d}`, i))
			if i%7 == 3 {
				md = nil // documents without metadata take part in filtered searches like any other
			}
			c.AddDocument(op.ID, op.Vec, md)
			live[op.ID] = true
		case "upd":
			if live[op.ID] {
				c.UpdateDocument(op.ID, []byte(fmt.Sprintf(`{"n":%d,"u":1}`, i)))
			}
		case "del":
			if live[op.ID] {
				c.VerifRemoveDocument(op.ID)
				delete(live, op.ID)
			}
		case "reopen":
			c.Close()
			c, err = syzgydb.NewCollection(syzgydb.CollectionOptions{Name: path, FileMode: syzgydb.ReadWrite})
			if err != nil {
				return "C05/reopen", err.Error()
			}
		}
		if res != nil {
			res.Evaluations++
			res.Hit("op:" + op.K)
		}
		ids := liveIDs()
		if err := treeInv(c, ids); err != nil {
			kind := "index-invariant"
			switch {
			case strings.Contains(err.Error(), "times"):
				kind = "duplicate-id-in-tree"
			case strings.Contains(err.Error(), "dead id"):
				kind = "dead-id-in-tree"
			case strings.Contains(err.Error(), "misses"):
				kind = "live-id-missing"
			case strings.Contains(err.Error(), "routes to"):
				kind = "misrouted-id"
			case strings.Contains(err.Error(), "nil"):
				kind = "nil-node"
			}
			return "C05/" + kind, fmt.Sprintf("after op %d (%s %d): %v", i, op.K, op.ID, err)
		}
		// observable consequence: covering-radius default search returns every live document once
		if len(ids) > 0 && (full || i%7 == 0 || i == len(sc.Ops)-1) && (len(ids) < 300 || i%16 == 0 || i == len(sc.Ops)-1) {
			q := make([]float64, sc.Dim)
			d0, _ := c.GetDocument(ids[0])
			copy(q, d0.Vector)
			R := 1.0
			if sc.Metric == syzgydb.Euclidean {
				R = 0
				for _, id := range ids {
					d, _ := c.GetDocument(id)
					if x := c.VerifDistance(q, d.Vector); x > R {
						R = x
					}
				}
				R = R*1.0000001 + 1e-9
			}
			nan := false
			for _, id := range ids {
				d, _ := c.GetDocument(id)
				if math.IsNaN(c.VerifDistance(q, d.Vector)) {
					nan = true
				}
			}
			if !nan {
				r := c.Search(syzgydb.SearchArgs{Vector: q, Radius: R})
				got := map[uint64]int{}
				for _, x := range r.Results {
					got[x.ID]++
				}
				for _, id := range ids {
					if got[id] != 1 {
						return "C05/covering-radius-incomplete", fmt.Sprintf("after op %d: covering-radius default search returned id %d %d times (%d live, %d results)", i, id, got[id], len(ids), len(r.Results))
					}
				}
				if len(r.Results) != len(ids) {
					return "C05/covering-radius-extra", fmt.Sprintf("after op %d: covering-radius search returned %d results for %d live documents", i, len(r.Results), len(ids))
				}
			}
		}
		if before != nil && pendSig == "" {
			if sig, detail := replayIndexOp(drv, hp, c, op, before, oldVec, wasLive); sig != "" {
				detail = fmt.Sprintf("after op %d (%s %d): %s", i, op.K, op.ID, detail)
				if !strings.HasPrefix(sig, "tie/") {
					return sig, detail
				}
				pendSig, pendDetail = sig, detail // keep looking for a failing input on the implementation
			}
		}
		if drv != nil && (full || i%5 == 0) && (len(ids) < 300 || i%16 == 0 || i == len(sc.Ops)-1) {
			if sig, detail := searchTie(drv, hp, c, sc, ids, srng); sig != "" {
				detail = fmt.Sprintf("after op %d: %s", i, detail)
				if !strings.HasPrefix(sig, "tie/") {
					return sig, detail
				}
				if pendSig == "" {
					pendSig, pendDetail = sig, detail
				}
			}
		}
	}
	return pendSig, pendDetail
}

func genLSHScenario(rng *rand.Rand, nops int, idx int) *lshScenario {
	sc := &lshScenario{Dim: 1 + rng.Intn(5), Quant: quants[idx%5], Metric: (idx / 5) % 2}
	pool := 6 + rng.Intn(20)
	big := idx%3 == 0 // cross the split threshold
	if big {
		pool = 130 + rng.Intn(150)
	}
	if idx%6 == 3 { // several levels of splits: more documents than the search budget of 200 visits
		big = true
		pool = 400 + rng.Intn(400)
		sc.Dim = 3 + rng.Intn(6)
		nops = pool + nops/2
	}
	live := map[uint64]bool{}
	vec := func() []float64 {
		v := make([]float64, sc.Dim)
		for i := range v {
			v[i] = rng.Float64()*2 - 1
		}
		return v
	}
	// ids: mostly small, some at and above 2^63 (the index rebuild, the REST layer and the export parse them back)
	idOf := func(k int) uint64 {
		switch k % 11 {
		case 5:
			return 1<<63 + uint64(k)
		case 7:
			return math.MaxUint64 - uint64(k)
		}
		return uint64(k)
	}
	for i := 0; i < nops; i++ {
		id := idOf(rng.Intn(pool))
		k := rng.Intn(100)
		switch {
		case big && i < pool: // fill first
			sc.Ops = append(sc.Ops, lshOp{K: "add", ID: idOf(i), Vec: vec()})
			live[idOf(i)] = true
		case k < 45:
			sc.Ops = append(sc.Ops, lshOp{K: "add", ID: id, Vec: vec()})
			live[id] = true
		case k < 55:
			sc.Ops = append(sc.Ops, lshOp{K: "upd", ID: id})
		case k < 92:
			sc.Ops = append(sc.Ops, lshOp{K: "del", ID: id})
			delete(live, id)
		case k < 96:
			sc.Ops = append(sc.Ops, lshOp{K: "reopen"})
		default: // empty the collection, then continue (refill)
			for d := range live {
				sc.Ops = append(sc.Ops, lshOp{K: "del", ID: d})
			}
			live = map[uint64]bool{}
		}
	}
	return sc
}

// shrinkLSH removes ops while the same failure signature persists.
func shrinkLSH(o *Opts, sc *lshScenario, sig string) *lshScenario {
	cur := *sc
	deadline := time.Now().Add(45 * time.Second)
	for chunk := len(cur.Ops) / 2; chunk >= 1; chunk /= 2 {
		for i := 0; i+chunk <= len(cur.Ops) && time.Now().Before(deadline); {
			cand := cur
			cand.Ops = append(append([]lshOp{}, cur.Ops[:i]...), cur.Ops[i+chunk:]...)
			if s, _ := runLSHChild(o, &cand); s == sig {
				cur = cand
			} else {
				i += chunk
			}
		}
	}
	return &cur
}

// runLSHChild runs a scenario in a child process so that a crash inside an index goroutine is an
// outcome ("C05/process-crash") and not the end of the harness.
func runLSHChild(o *Opts, sc *lshScenario) (string, string) {
	sig, detail, a, b := runLSHChildStats(o, sc)
	childMu.Lock()
	childReplays += a
	childSearches += b
	childMu.Unlock()
	return sig, detail
}

var childMu sync.Mutex

func runLSHChildStats(o *Opts, sc *lshScenario) (sig, detail string, replays, searches int) {
	f := filepath.Join(o.Scratch, fmt.Sprintf("lshchild-%d.json", rand.Int63()))
	defer os.Remove(f)
	writeJSON(f, sc)
	cmd := exec.Command(os.Args[0], "lsh-child", "--replay", f, "--scratch", o.Scratch)
	out, err := cmd.CombinedOutput()
	s := string(out)
	if i := strings.Index(s, "LSHSTATS "); i >= 0 {
		var c int
		fmt.Sscanf(s[i:], "LSHSTATS replays=%d searches=%d driver_requests=%d", &replays, &searches, &c)
	}
	if i := strings.Index(s, "LSHRESULT "); i >= 0 {
		line := strings.SplitN(s[i+10:], "\n", 2)[0]
		parts := strings.SplitN(line, "\t", 2)
		if len(parts) == 2 {
			return parts[0], parts[1], replays, searches
		}
		return parts[0], "", replays, searches
	}
	if err != nil {
		tail := s
		if len(tail) > 600 {
			tail = tail[:600]
		}
		return "C05/process-crash", tail, replays, searches
	}
	return "", "", replays, searches
}

var childReplays, childSearches int

func lshChild(o *Opts) {
	var sc lshScenario
	readJSON(o.Replay, &sc)
	drv := StartDriver()
	defer drv.Close()
	sig, detail := runLSHScenario(o, nil, &sc, fmt.Sprint(os.Getpid()), sc.Full, drv)
	fmt.Printf("LSHSTATS replays=%d searches=%d driver_requests=%d\n", statReplays, statSearches, drv.n)
	fmt.Printf("LSHRESULT %s\t%s\n", sig, strings.ReplaceAll(detail, "\n", " "))
}

func lshRun(prop string, o *Opts) {
	res := NewResult(prop, "lsh", o.Seed, o.Tier)
	res.Rule = "histories mixing AddDocument on fresh and existing ids, UpdateDocument, removal (down to zero documents), refill and reopen, all quantizations x both metrics, below and above the leaf-split threshold; " +
		"after every operation the index invariant (per tree: leaf ids = live ids, each once, each in the leaf its stored vector routes to) is evaluated on the dumped real forest, and a covering-radius default search must return every live document once; " +
		"each scenario runs in a child process (a crash in an index goroutine is an outcome); distinct = distinct scenario x op index"
	nscen, nops := 20, 160
	if o.Tier == "thorough" {
		nscen, nops = 120, 600
	}
	if o.Scenarios > 0 {
		nscen = o.Scenarios
	}
	if o.Ops > 0 {
		nops = o.Ops
	}
	if o.Replay != "" {
		var rp struct {
			Replay struct {
				Scenario lshScenario `json:"scenario"`
			} `json:"replay"`
		}
		readJSON(o.Replay, &rp)
		var generic struct {
			Replay struct {
				Corpus string `json:"corpus"`
				Seed   int64  `json:"seed"`
			} `json:"replay"`
		}
		readJSON(o.Replay, &generic)
		if generic.Replay.Corpus == "overflow" {
			if generic.Replay.Seed != 0 {
				o.Seed = generic.Replay.Seed
			}
			overflowCorpus(o, res)
			res.Write(o.Out)
			return
		}
		sig, detail := runLSHChild(o, &rp.Replay.Scenario)
		res.Evaluations = len(rp.Replay.Scenario.Ops)
		if sig != "" {
			kind := "impl-failure"
			if strings.HasPrefix(sig, "tie/") {
				kind = "tie-broken"
			}
			res.Violate(kind, sig, detail, map[string]any{"scenario": rp.Replay.Scenario})
		}
		res.Write(o.Out)
		return
	}
	if prop == "C04" {
		overflowCorpus(o, res)
	}
	// the scenarios run in parallel child processes; results are folded in scenario order
	type outcome struct {
		sc            *lshScenario
		sig, detail   string
		replays, srch int
	}
	outs := make([]outcome, nscen)
	sem := make(chan struct{}, 12)
	var wg sync.WaitGroup
	for i := o.Start; i < o.Start+nscen; i++ {
		rng := rand.New(rand.NewSource(o.Seed*7919 + int64(i)))
		sc := genLSHScenario(rng, nops, i)
		sc.Full = prop == "C04"
		wg.Add(1)
		sem <- struct{}{}
		go func(k int, sc *lshScenario) {
			defer wg.Done()
			defer func() { <-sem }()
			sig, detail, a, b := runLSHChildStats(o, sc)
			outs[k] = outcome{sc, sig, detail, a, b}
		}(i-o.Start, sc)
	}
	wg.Wait()
	for i := o.Start; i < o.Start+nscen; i++ {
		oc := outs[i-o.Start]
		sc, sig, detail := oc.sc, oc.sig, oc.detail
		res.Histogram["index_ops_replayed_on_model"] += oc.replays
		res.Histogram["searches_compared_with_model"] += oc.srch
		res.Evaluations += len(sc.Ops)
		res.TracesValidated += len(sc.Ops)
		for j := range sc.Ops {
			res.DistinctCase(fmt.Sprintf("%d/%d", i, j))
		}
		res.Hit(fmt.Sprintf("config:q%d:m%d", sc.Quant, sc.Metric))
		if i == o.Start {
			res.Sample(map[string]any{"scenario": i, "dim": sc.Dim, "quant": sc.Quant, "metric": sc.Metric, "first_ops": sc.Ops[:min(5, len(sc.Ops))]})
		}
		if sig != "" {
			already := false
			for _, v := range res.Violations {
				if v.Signature == sig {
					already = true
				}
			}
			if !already {
				min := shrinkLSH(o, sc, sig)
				_, d2 := runLSHChild(o, min)
				kind := "impl-failure"
				if strings.HasPrefix(sig, "tie/") {
					kind = "tie-broken"
				}
				res.Violate(kind, sig, detail+" | minimized to "+fmt.Sprint(len(min.Ops))+" ops: "+d2, map[string]any{"scenario": min})
			}
		}
	}
	res.Write(o.Out)
}

// ---------- model tie: index operations and searches replayed on the Lean model ----------

type hpTable struct{ ids map[string]int }

func newHPTable() *hpTable { return &hpTable{ids: map[string]int{}} }

func (h *hpTable) id(n *syzgydb.VerifNode) int {
	var sb strings.Builder
	for _, x := range n.Normal {
		fmt.Fprintf(&sb, "%x,", math.Float64bits(x))
	}
	fmt.Fprintf(&sb, "|%x", math.Float64bits(n.B))
	k := sb.String()
	if v, ok := h.ids[k]; ok {
		return v
	}
	v := len(h.ids) + 1
	h.ids[k] = v
	return v
}

func (h *hpTable) enc(n *syzgydb.VerifNode, out *[]string) {
	if n == nil {
		*out = append(*out, "NIL")
		return
	}
	if n.Leaf {
		*out = append(*out, fmt.Sprintf("L%d", len(n.IDs)))
		for _, id := range n.IDs {
			*out = append(*out, fmt.Sprint(id))
		}
		return
	}
	*out = append(*out, fmt.Sprintf("N%d", h.id(n)))
	h.enc(n.Left, out)
	h.enc(n.Right, out)
}

func (h *hpTable) encTree(n *syzgydb.VerifNode) string {
	var out []string
	h.enc(n, &out)
	return strings.Join(out, ";")
}

func internalNodes(n *syzgydb.VerifNode, acc *[]*syzgydb.VerifNode) {
	if n == nil || n.Leaf {
		return
	}
	*acc = append(*acc, n)
	internalNodes(n.Left, acc)
	internalNodes(n.Right, acc)
}

func leafIDs(n *syzgydb.VerifNode, acc *[]uint64) {
	if n == nil {
		return
	}
	if n.Leaf {
		*acc = append(*acc, n.IDs...)
		return
	}
	leafIDs(n.Left, acc)
	leafIDs(n.Right, acc)
}

const oldHandle = uint64(1) << 62

var statReplays, statSearches int

// replayIndexOp: the model's insert/remove applied to the dumped forest before the op, with the
// sides the implementation computes, must give the dumped forest after the op.
func replayIndexOp(drv *Driver, hp *hpTable, c *syzgydb.Collection, op lshOp, before []*syzgydb.VerifNode, oldVec []float64, wasLive bool) (string, string) {
	after := c.VerifDumpForest()
	thr := c.VerifThreshold()
	statReplays++
	for k := range before {
		cur := hp.encTree(before[k])
		// sides of every hyperplane (before and after) for: the old vector, and the stored vectors of all ids in the after tree
		var nodes []*syzgydb.VerifNode
		internalNodes(before[k], &nodes)
		known := map[int]bool{}
		for _, n := range nodes {
			known[hp.id(n)] = true
		}
		var anodes []*syzgydb.VerifNode
		internalNodes(after[k], &anodes)
		choose := "none"
		for _, n := range anodes {
			if !known[hp.id(n)] {
				choose = fmt.Sprint(hp.id(n))
				nodes = append(nodes, n)
			}
		}
		var tab []string
		if oldVec != nil {
			for _, n := range nodes {
				_, right := c.VerifSide(oldVec, n.Normal, n.B)
				tab = append(tab, fmt.Sprintf("%d:%d=%d", hp.id(n), oldHandle+op.ID, b2i(right)))
			}
		}
		var ids []uint64
		leafIDs(after[k], &ids)
		for _, id := range ids {
			d, err := c.GetDocument(id)
			if err != nil {
				continue
			}
			for _, n := range nodes {
				_, right := c.VerifSide(d.Vector, n.Normal, n.B)
				tab = append(tab, fmt.Sprintf("%d:%d=%d", hp.id(n), id, b2i(right)))
			}
		}
		st := "-"
		if len(tab) > 0 {
			st = strings.Join(tab, ",")
		}
		if (op.K == "add" && wasLive) || op.K == "del" {
			handle := op.ID
			if op.K == "add" {
				handle = oldHandle + op.ID
			} else if oldVec != nil {
				handle = oldHandle + op.ID
			}
			r := drv.Send(fmt.Sprintf("lshdel %s %d %d %s", cur, op.ID, handle, st))
			f := strings.Fields(r)
			if len(f) != 2 || f[0] != "tree" {
				return "tie/lsh/remove", "model reply " + abbreviate(r, 200)
			}
			cur = f[1]
		}
		if op.K == "add" {
			r := drv.Send(fmt.Sprintf("lshins %d %s %d %d %s %s", thr, cur, op.ID, op.ID, st, choose))
			f := strings.Fields(r)
			if len(f) != 2 || f[0] != "tree" {
				return "tie/lsh/insert", "model reply " + abbreviate(r, 200)
			}
			cur = f[1]
		}
		if want := hp.encTree(after[k]); cur != want {
			return "tie/lsh/forest", fmt.Sprintf("tree %d after the op: model %s, implementation %s", k, abbreviate(cur, 300), abbreviate(want, 300))
		}
	}
	return "", ""
}

func b2i(b bool) int {
	if b {
		return 1
	}
	return 0
}

// searchTie: default-precision searches on the implementation vs the model's search over the dumped
// forest, plus the direct C04 oracles.
func searchTie(drv *Driver, hp *hpTable, c *syzgydb.Collection, sc *lshScenario, ids []uint64, rng *rand.Rand) (string, string) {
	forest := c.VerifDumpForest()
	var trees []string
	allLeaves := true
	var nodes []*syzgydb.VerifNode
	for _, t := range forest {
		trees = append(trees, hp.encTree(t))
		if t == nil || !t.Leaf {
			allLeaves = false
		}
		internalNodes(t, &nodes)
	}
	query := make([]float64, sc.Dim)
	switch rng.Intn(3) {
	case 0:
		if len(ids) > 0 {
			d, _ := c.GetDocument(ids[rng.Intn(len(ids))])
			copy(query, d.Vector)
		}
	default:
		for i := range query {
			query[i] = rng.Float64()*2 - 1
		}
	}
	if rng.Intn(8) == 0 { // a query so large that hyperplane distances overflow to +Inf (no pruning may happen before a first result)
		for i := range query {
			query[i] = []float64{1.79e308, -1.79e308, 1e308}[rng.Intn(3)]
		}
	}
	var hpt []string
	seenHP := map[int]bool{}
	for _, n := range nodes {
		if seenHP[hp.id(n)] {
			continue
		}
		seenHP[hp.id(n)] = true
		d, right := c.VerifSide(query, n.Normal, n.B)
		if math.IsNaN(d) || d < 0 {
			return "", ""
		}
		hpt = append(hpt, fmt.Sprintf("%d:%d=%d", hp.id(n), math.Float64bits(d), b2i(right)))
	}
	f := genFilter(rng)
	selective := len(ids) > 100 && rng.Intn(2) == 0
	if selective { // accepts one or two live documents: the search has to get past everything else
		a, b := ids[rng.Intn(len(ids))], ids[rng.Intn(len(ids))]
		f = namedFilter{fmt.Sprintf("id in {%d,%d}", a, b), func(id uint64, md []byte) bool { return id == a || id == b }}
	}
	var cs []string
	dist := map[uint64]float64{}
	acc := map[uint64]bool{}
	m := 0
	for _, id := range ids {
		d, _ := c.GetDocument(id)
		x := c.VerifDistance(query, d.Vector)
		if math.IsNaN(x) || x < 0 {
			return "", ""
		}
		a := f.fn == nil || f.fn(id, d.Metadata)
		if a {
			m++
		}
		dist[id], acc[id] = x, a
		cs = append(cs, fmt.Sprintf("%d:%d:%d", id, math.Float64bits(x), b2i(a)))
	}
	j := func(p []string) string {
		if len(p) == 0 {
			return "-"
		}
		return strings.Join(p, ",")
	}
	K, R := 0, 0.0
	if rng.Intn(2) == 0 || selective {
		K = 1 + rng.Intn(12)
	} else {
		R = rng.Float64() * 1.5
		if len(ids) > 0 && rng.Intn(2) == 0 {
			R = dist[ids[rng.Intn(len(ids))]]
		}
		if !(R > 0) {
			R = 0.25
		}
	}
	statSearches++
	real := c.Search(syzgydb.SearchArgs{Vector: query, K: K, Radius: R, Filter: f.fn})
	model := drv.Send(fmt.Sprintf("lsh 200 %d %d %d %s %s %s", K, math.Float64bits(R), math.Float64bits(math.Inf(1)), strings.Join(trees, "|"), j(cs), j(hpt)))
	var rb []string
	for _, r := range real.Results {
		rb = append(rb, fmt.Sprint(math.Float64bits(r.Distance)))
	}
	tieSig, tieDetail := "", ""
	mf := strings.Fields(model)
	searched := 0
	if len(ids) > 0 {
		searched = int(math.Round(real.PercentSearched * float64(len(ids)) / 100))
	}
	if len(mf) != 3 {
		tieSig, tieDetail = "tie/lsh/search", "model reply "+abbreviate(model, 200)
	} else if strings.Join(rb, ",") != strings.Join(distBits(mf[0]+" "+mf[1]), ",") || mf[2] != fmt.Sprintf("n=%d", searched) {
		tieSig, tieDetail = "tie/lsh/search", fmt.Sprintf("K=%d R=%v filter=%s: implementation distances %v searched=%d, model %s", K, R, f.name, rb, searched, abbreviate(model, 300))
	}
	// direct oracles (C04)
	tmp := NewResult("C04", "", 0, "")
	scq := &searchColl{c: c, docs: map[uint64]*refDoc{}}
	for _, id := range ids {
		d, _ := c.GetDocument(id)
		scq.docs[id] = &refDoc{id: id, meta: d.Metadata}
	}
	scq.checkResults(tmp, "C04", "default-precision", real.Results, dist, acc, nil)
	if len(tmp.Violations) > 0 {
		return tmp.Violations[0].Signature, tmp.Violations[0].Detail
	}
	if K > 0 && len(real.Results) > K {
		return "C04/more-than-K", fmt.Sprintf("K=%d search returned %d results", K, len(real.Results))
	}
	if R > 0 {
		for _, r := range real.Results {
			if r.Distance > R {
				return "C04/outside-radius", fmt.Sprintf("radius %v search returned id %d at distance %v", R, r.ID, r.Distance)
			}
		}
	}
	if K > 0 && m > 0 && len(real.Results) == 0 {
		return "C04/empty-although-match-exists", fmt.Sprintf("K=%d search returned nothing although %d live documents pass the filter", K, m)
	}
	if allLeaves && K > 0 {
		ex := c.Search(syzgydb.SearchArgs{Vector: query, K: K, Filter: f.fn, Precision: "exact"})
		var eb []string
		for _, r := range ex.Results {
			eb = append(eb, fmt.Sprint(math.Float64bits(r.Distance)))
		}
		if strings.Join(eb, ",") != strings.Join(rb, ",") {
			return "C04/single-leaf-differs-from-exact", fmt.Sprintf("single-leaf collection (%d docs): default search distances %v, exact %v", len(ids), rb, eb)
		}
	}
	// the oracles found nothing wrong with this search: report the model divergence, if any
	return tieSig, tieDetail
}

// overflowCorpus is the minimised form of a past failure (fixed in /repo 93c5d62) that runs first: queries whose
// components are near the largest float64 make the distance to a hyperplane overflow to +Inf; with a filter
// that a single document passes, a K-nearest search must still return that document.
func overflowCorpus(o *Opts, res *Result) {
	rng := rand.New(rand.NewSource(o.Seed*104729 + 17))
	path := filepath.Join(o.Scratch, "lsh-overflow.dat")
	os.Remove(path)
	defer os.Remove(path)
	const dim = 16
	c, err := syzgydb.NewCollection(syzgydb.CollectionOptions{Name: path, DistanceMethod: syzgydb.Euclidean, DimensionCount: dim, Quantization: 64, FileMode: syzgydb.CreateAndOverwrite})
	if err != nil {
		fatal("overflow corpus: %v", err)
	}
	defer c.Close()
	n := 300
	for i := 0; i < n; i++ {
		v := make([]float64, dim)
		for j := range v {
			v[j] = rng.Float64()*2 - 1
		}
		c.AddDocument(uint64(i), v, []byte(fmt.Sprintf(`{"n":%d}`, i)))
	}
	trials := 800
	if o.Tier == "thorough" {
		trials = 6000
	}
	for t := 0; t < trials; t++ {
		q := make([]float64, dim)
		for j := range q {
			q[j] = []float64{1.79e308, -1.79e308}[rng.Intn(2)]
		}
		want := uint64(rng.Intn(n))
		var got []syzgydb.SearchResult
		func() {
			defer func() {
				if r := recover(); r != nil {
					res.Violate("impl-failure", "C04/panic", fmt.Sprintf("search with an overflowing query panics: %v", r), map[string]any{"corpus": "overflow", "trial": t, "query": q, "id": want})
				}
			}()
			got = c.Search(syzgydb.SearchArgs{Vector: q, K: 5, Filter: func(id uint64, md []byte) bool { return id == want }}).Results
		}()
		res.Evaluations++
		res.Hit("corpus:overflow-query")
		if len(got) == 0 {
			res.Violate("impl-failure", "C04/empty-although-match-exists",
				fmt.Sprintf("K=5 search with query components of magnitude 1.79e308 and a filter that document %d passes returned nothing (300 documents, 16 dimensions, Euclidean)", want),
				map[string]any{"corpus": "overflow", "seed": o.Seed, "trial": t, "query": q, "id": want})
			return
		}
		if got[0].ID != want {
			res.Violate("impl-failure", "C04/filter-rejected-document-returned", fmt.Sprintf("filter passes only %d, search returned %d", want, got[0].ID),
				map[string]any{"corpus": "overflow", "trial": t, "query": q, "id": want})
			return
		}
	}
}

func lshMain(prop string) func(o *Opts) {
	return func(o *Opts) { lshRun(prop, o) }
}

func init() {
	subcommands["lsh-C04"] = lshMain("C04")
	subcommands["lsh-C05"] = lshMain("C05")
	subcommands["lsh-child"] = lshChild
}
