package main

import (
	"fmt"
	"math"
	"math/rand"
	"os"
	"os/exec"
	"path/filepath"
	"sort"
	"strings"

	"github.com/smhanov/syzgydb"
)

// treeInv evaluates the C05 index invariant on the dumped real forest:
// no missing child; per tree the multiset of leaf ids equals the live ids (each once);
// every id sits in the leaf its *stored* vector routes to.
func treeInv(c *syzgydb.Collection, live []uint64) error {
	forest := c.VerifDumpForest()
	stored := map[uint64][]float64{}
	for _, id := range live {
		d, err := c.GetDocument(id)
		if err != nil {
			return fmt.Errorf("live document %d unreadable: %v", id, err)
		}
		stored[id] = d.Vector
	}
	for ti, root := range forest {
		if root == nil {
			return fmt.Errorf("tree %d: root is nil", ti)
		}
		count := map[uint64]int{}
		var walk func(n *syzgydb.VerifNode) error
		walk = func(n *syzgydb.VerifNode) error {
			if n.Leaf {
				for _, id := range n.IDs {
					count[id]++
				}
				return nil
			}
			if n.Left == nil || n.Right == nil {
				return fmt.Errorf("tree %d: internal node with a nil child", ti)
			}
			if err := walk(n.Left); err != nil {
				return err
			}
			return walk(n.Right)
		}
		if err := walk(root); err != nil {
			return err
		}
		for id, k := range count {
			if _, ok := stored[id]; !ok {
				return fmt.Errorf("tree %d references dead id %d", ti, id)
			}
			if k != 1 {
				return fmt.Errorf("tree %d lists id %d %d times", ti, id, k)
			}
		}
		for _, id := range live {
			if count[id] == 0 {
				return fmt.Errorf("tree %d misses live id %d", ti, id)
			}
		}
		// routing
		for _, id := range live {
			n := root
			for !n.Leaf {
				_, right := c.VerifSide(stored[id], n.Normal, n.B)
				if right {
					n = n.Right
				} else {
					n = n.Left
				}
			}
			found := false
			for _, x := range n.IDs {
				if x == id {
					found = true
				}
			}
			if !found {
				return fmt.Errorf("tree %d: id %d is not in the leaf its stored vector routes to", ti, id)
			}
		}
	}
	return nil
}

type lshOp struct {
	K   string    `json:"k"` // add del upd reopen
	ID  uint64    `json:"id"`
	Vec []float64 `json:"vec,omitempty"`
}

type lshScenario struct {
	Dim, Quant, Metric int
	Ops                []lshOp
}

// runLSHScenario executes ops on a fresh collection, checking TreeInv and the observable
// consequences of C05 after every op. Returns the first failure (signature, detail) or "".
func runLSHScenario(o *Opts, res *Result, sc *lshScenario, tag string, full bool) (string, string) {
	path := filepath.Join(o.Scratch, "lsh-"+tag+".dat")
	os.Remove(path)
	defer os.Remove(path)
	c, err := syzgydb.NewCollection(syzgydb.CollectionOptions{Name: path, DistanceMethod: sc.Metric, DimensionCount: sc.Dim, Quantization: sc.Quant, FileMode: syzgydb.CreateAndOverwrite})
	if err != nil {
		return "C05/open", err.Error()
	}
	defer func() {
		if c != nil {
			c.Close()
		}
	}()
	live := map[uint64]bool{}
	liveIDs := func() []uint64 {
		ids := make([]uint64, 0, len(live))
		for id := range live {
			ids = append(ids, id)
		}
		sort.Slice(ids, func(i, j int) bool { return ids[i] < ids[j] })
		return ids
	}
	for i, op := range sc.Ops {
		switch op.K {
		case "add":
			c.AddDocument(op.ID, op.Vec, []byte(fmt.Sprintf(`{"n":%d}`, i)))
			live[op.ID] = true
		case "upd":
			if live[op.ID] {
				c.UpdateDocument(op.ID, []byte(fmt.Sprintf(`{"n":%d,"u":1}`, i)))
			}
		case "del":
			if live[op.ID] {
				c.VerifRemoveDocument(op.ID)
				delete(live, op.ID)
			}
		case "reopen":
			c.Close()
			c, err = syzgydb.NewCollection(syzgydb.CollectionOptions{Name: path, FileMode: syzgydb.ReadWrite})
			if err != nil {
				return "C05/reopen", err.Error()
			}
		}
		if res != nil {
			res.Evaluations++
			res.Hit("op:" + op.K)
		}
		ids := liveIDs()
		if err := treeInv(c, ids); err != nil {
			kind := "index-invariant"
			switch {
			case strings.Contains(err.Error(), "times"):
				kind = "duplicate-id-in-tree"
			case strings.Contains(err.Error(), "dead id"):
				kind = "dead-id-in-tree"
			case strings.Contains(err.Error(), "misses"):
				kind = "live-id-missing"
			case strings.Contains(err.Error(), "routes to"):
				kind = "misrouted-id"
			case strings.Contains(err.Error(), "nil"):
				kind = "nil-node"
			}
			return "C05/" + kind, fmt.Sprintf("after op %d (%s %d): %v", i, op.K, op.ID, err)
		}
		if !full && i%7 != 0 && i != len(sc.Ops)-1 {
			continue
		}
		// observable consequence: covering-radius default search returns every live document once
		if len(ids) > 0 {
			q := make([]float64, sc.Dim)
			d0, _ := c.GetDocument(ids[0])
			copy(q, d0.Vector)
			R := 1.0
			if sc.Metric == syzgydb.Euclidean {
				R = 0
				for _, id := range ids {
					d, _ := c.GetDocument(id)
					if x := c.VerifDistance(q, d.Vector); x > R {
						R = x
					}
				}
				R = R*1.0000001 + 1e-9
			}
			nan := false
			for _, id := range ids {
				d, _ := c.GetDocument(id)
				if math.IsNaN(c.VerifDistance(q, d.Vector)) {
					nan = true
				}
			}
			if !nan {
				r := c.Search(syzgydb.SearchArgs{Vector: q, Radius: R})
				got := map[uint64]int{}
				for _, x := range r.Results {
					got[x.ID]++
				}
				for _, id := range ids {
					if got[id] != 1 {
						return "C05/covering-radius-incomplete", fmt.Sprintf("after op %d: covering-radius default search returned id %d %d times (%d live, %d results)", i, id, got[id], len(ids), len(r.Results))
					}
				}
				if len(r.Results) != len(ids) {
					return "C05/covering-radius-extra", fmt.Sprintf("after op %d: covering-radius search returned %d results for %d live documents", i, len(r.Results), len(ids))
				}
			}
		}
	}
	return "", ""
}

func genLSHScenario(rng *rand.Rand, nops int, idx int) *lshScenario {
	sc := &lshScenario{Dim: 1 + rng.Intn(5), Quant: quants[idx%5], Metric: (idx / 5) % 2}
	pool := 6 + rng.Intn(20)
	big := idx%3 == 0 // cross the split threshold
	if big {
		pool = 130 + rng.Intn(150)
	}
	live := map[uint64]bool{}
	vec := func() []float64 {
		v := make([]float64, sc.Dim)
		for i := range v {
			v[i] = rng.Float64()*2 - 1
		}
		return v
	}
	for i := 0; i < nops; i++ {
		id := uint64(rng.Intn(pool))
		k := rng.Intn(100)
		switch {
		case big && i < pool: // fill first
			sc.Ops = append(sc.Ops, lshOp{K: "add", ID: uint64(i), Vec: vec()})
			live[uint64(i)] = true
		case k < 45:
			sc.Ops = append(sc.Ops, lshOp{K: "add", ID: id, Vec: vec()})
			live[id] = true
		case k < 55:
			sc.Ops = append(sc.Ops, lshOp{K: "upd", ID: id})
		case k < 92:
			sc.Ops = append(sc.Ops, lshOp{K: "del", ID: id})
			delete(live, id)
		case k < 96:
			sc.Ops = append(sc.Ops, lshOp{K: "reopen"})
		default: // empty the collection, then continue (refill)
			for d := range live {
				sc.Ops = append(sc.Ops, lshOp{K: "del", ID: d})
			}
			live = map[uint64]bool{}
		}
	}
	return sc
}

// shrinkLSH removes ops while the same failure signature persists.
func shrinkLSH(o *Opts, sc *lshScenario, sig string) *lshScenario {
	cur := *sc
	for chunk := len(cur.Ops) / 2; chunk >= 1; chunk /= 2 {
		for i := 0; i+chunk <= len(cur.Ops); {
			cand := cur
			cand.Ops = append(append([]lshOp{}, cur.Ops[:i]...), cur.Ops[i+chunk:]...)
			if s, _ := runLSHChild(o, &cand); s == sig {
				cur = cand
			} else {
				i += chunk
			}
		}
	}
	return &cur
}

// runLSHChild runs a scenario in a child process so that a crash inside an index goroutine is an
// outcome ("C05/process-crash") and not the end of the harness.
func runLSHChild(o *Opts, sc *lshScenario) (string, string) {
	f := filepath.Join(o.Scratch, fmt.Sprintf("lshchild-%d.json", rand.Int63()))
	defer os.Remove(f)
	writeJSON(f, sc)
	cmd := exec.Command(os.Args[0], "lsh-child", "--replay", f, "--scratch", o.Scratch)
	out, err := cmd.CombinedOutput()
	s := string(out)
	if i := strings.Index(s, "LSHRESULT "); i >= 0 {
		line := strings.SplitN(s[i+10:], "\n", 2)[0]
		parts := strings.SplitN(line, "\t", 2)
		if len(parts) == 2 {
			return parts[0], parts[1]
		}
		return parts[0], ""
	}
	if err != nil {
		tail := s
		if len(tail) > 600 {
			tail = tail[:600]
		}
		return "C05/process-crash", tail
	}
	return "", ""
}

func lshChild(o *Opts) {
	var sc lshScenario
	readJSON(o.Replay, &sc)
	sig, detail := runLSHScenario(o, nil, &sc, fmt.Sprint(os.Getpid()), true)
	fmt.Printf("LSHRESULT %s\t%s\n", sig, strings.ReplaceAll(detail, "\n", " "))
}

func lshC05(o *Opts) {
	res := NewResult("C05", "lsh", o.Seed, o.Tier)
	res.Rule = "histories mixing AddDocument on fresh and existing ids, UpdateDocument, removal (down to zero documents), refill and reopen, all quantizations x both metrics, below and above the leaf-split threshold; " +
		"after every operation the index invariant (per tree: leaf ids = live ids, each once, each in the leaf its stored vector routes to) is evaluated on the dumped real forest, and a covering-radius default search must return every live document once; " +
		"each scenario runs in a child process (a crash in an index goroutine is an outcome); distinct = distinct scenario x op index"
	nscen, nops := 20, 160
	if o.Tier == "thorough" {
		nscen, nops = 120, 600
	}
	if o.Scenarios > 0 {
		nscen = o.Scenarios
	}
	if o.Ops > 0 {
		nops = o.Ops
	}
	if o.Replay != "" {
		var rp struct {
			Replay struct {
				Scenario lshScenario `json:"scenario"`
			} `json:"replay"`
		}
		readJSON(o.Replay, &rp)
		sig, detail := runLSHChild(o, &rp.Replay.Scenario)
		res.Evaluations = len(rp.Replay.Scenario.Ops)
		if sig != "" {
			res.Violate("impl-failure", sig, detail, map[string]any{"scenario": rp.Replay.Scenario})
		}
		res.Write(o.Out)
		return
	}
	for i := o.Start; i < o.Start+nscen; i++ {
		rng := rand.New(rand.NewSource(o.Seed*7919 + int64(i)))
		sc := genLSHScenario(rng, nops, i)
		sig, detail := runLSHChild(o, sc)
		res.Evaluations += len(sc.Ops)
		res.TracesValidated += len(sc.Ops)
		for j := range sc.Ops {
			res.DistinctCase(fmt.Sprintf("%d/%d", i, j))
		}
		res.Hit(fmt.Sprintf("config:q%d:m%d", sc.Quant, sc.Metric))
		if i == o.Start {
			res.Sample(map[string]any{"scenario": i, "dim": sc.Dim, "quant": sc.Quant, "metric": sc.Metric, "first_ops": sc.Ops[:min(5, len(sc.Ops))]})
		}
		if sig != "" {
			already := false
			for _, v := range res.Violations {
				if v.Signature == sig {
					already = true
				}
			}
			if !already {
				min := shrinkLSH(o, sc, sig)
				_, d2 := runLSHChild(o, min)
				res.Violate("impl-failure", sig, detail+" | minimized to "+fmt.Sprint(len(min.Ops))+" ops: "+d2, map[string]any{"scenario": min})
			}
		}
	}
	res.Write(o.Out)
}

func init() {
	subcommands["lsh-C05"] = lshC05
	subcommands["lsh-child"] = lshChild
}
