package main

import (
	"encoding/json"
	"fmt"
	"math/rand"
	"net/url"
	"os"
	"path/filepath"
	"sort"
	"strings"
	"time"

	"github.com/smhanov/syzgydb"
)

type httpReq struct {
	Method string `json:"method"`
	Path   string `json:"path"`
	Body   string `json:"body"`
	Why    string `json:"why"`
}

func jsonS(v any) string { b, _ := json.Marshal(v); return string(b) }

// a well-formed request of each kind against collection c (dim 3), then mutated in one field
func genMutatedRequest(rng *rand.Rand) httpReq {
	coll := []string{"c1", "c2", "nope"}[rng.Intn(3)]
	base := "/api/v1/collections/" + coll
	vec := func(n int) []float64 {
		v := make([]float64, n)
		for i := range v {
			v[i] = rng.Float64()
		}
		return v
	}
	switch rng.Intn(13) {
	case 0: // create with unsupported options
		q := []any{7, 0, -8, 3, 128, "64", 1e9, nil}[rng.Intn(8)]
		d := []any{0, -1, 3, "3", 1 << 40, nil}[rng.Intn(6)]
		return httpReq{"POST", "/api/v1/collections", jsonS(map[string]any{"name": fmt.Sprintf("m%d", rng.Intn(1000)), "distance_function": []string{"euclidean", "cosine", "manhattan", ""}[rng.Intn(4)], "vector_size": d, "quantization": q}), "create-bad-options"}
	case 1: // insert, wrong dimension
		n := []int{0, 1, 2, 4, 50}[rng.Intn(5)]
		return httpReq{"POST", base + "/records", jsonS([]map[string]any{{"id": rng.Intn(20), "vector": vec(n), "metadata": map[string]string{"k": "v"}}}), "insert-wrong-dimension"}
	case 2: // batch: valid records followed by an invalid one
		recs := []map[string]any{{"id": 100 + rng.Intn(5), "vector": vec(3), "metadata": map[string]string{"batch": "first"}},
			{"id": 200 + rng.Intn(5), "vector": vec(3), "metadata": map[string]string{"batch": "second"}}}
		switch rng.Intn(3) {
		case 0:
			recs = append(recs, map[string]any{"id": 300, "vector": vec(2), "metadata": map[string]string{}})
		case 1:
			recs = append(recs, map[string]any{"id": 300, "metadata": map[string]string{}})
		default:
			recs = append(recs, map[string]any{"id": 300, "vector": vec(7), "metadata": map[string]string{}})
		}
		return httpReq{"POST", base + "/records", jsonS(recs), "insert-batch-partly-invalid"}
	case 3: // malformed JSON bodies
		b := []string{"", "{", "[", "[{]", `{"id":1}`, `[{"id":"x"}]`, `[{"id":-1,"vector":[1,2,3]}]`, `[{"id":1,"vector":"no"}]`, `[{"id":1,"vector":[1,2,3],"metadata":{"a":1}}]`, "null", "[null]", `[{"id":1.5,"vector":[1,2,3]}]`, `[{"id":1,"vector":[1,2,3]`}[rng.Intn(13)]
		p := []string{base + "/records", "/api/v1/collections", base + "/search", base + "/records/1/metadata"}[rng.Intn(4)]
		m := "POST"
		if strings.HasSuffix(p, "/metadata") {
			m = "PUT"
		}
		return httpReq{m, p, b, "malformed-json"}
	case 4: // search with a vector of the wrong dimension
		n := []int{0, 1, 2, 4, 9, 3}[rng.Intn(6)] // 3 is the right dimension: then only the ranges are wrong
		body := map[string]any{"vector": vec(n)}
		switch rng.Intn(4) {
		case 0:
			body["k"] = 1 + rng.Intn(5)
		case 1:
			body["radius"] = rng.Float64() + 0.1
		case 2: // out-of-range k / radius / paging, alone or together
			body["k"] = []int{-1, -3, 0, 2, 1 << 31}[rng.Intn(5)]
			if rng.Intn(2) == 0 {
				body["radius"] = []float64{-0.5, -1e300, 0, 0.25, 1e308}[rng.Intn(5)]
			}
		default:
			body["radius"] = []float64{-0.5, -1e300, 1e308}[rng.Intn(3)]
			if rng.Intn(2) == 0 {
				body["offset"] = []int{-1, 5, 1 << 40}[rng.Intn(3)]
				body["limit"] = []int{-2, 0, 1 << 40}[rng.Intn(3)]
			}
		}
		if rng.Intn(3) == 0 {
			body["precision"] = "exact"
		}
		return httpReq{"POST", base + "/search", jsonS(body), "search-wrong-dimension"}
	case 5: // search without a vector (GET form)
		return httpReq{"GET", base + fmt.Sprintf("/search?k=%d&radius=%v&offset=%d&limit=%d&precision=%s", rng.Intn(6)-2, []string{"0", "0.5", "x", "-0.5", "-1"}[rng.Intn(5)], rng.Intn(4)-1, rng.Intn(4)-1, []string{"", "exact"}[rng.Intn(2)]), "", "search-get-no-vector"}
	case 6: // invalid filter text
		f := []string{"x DOES NOT", "a ==", "(a", "a == 1 b", "'", "a IN [", "\x00", "a MATCHES '['"}[rng.Intn(8)]
		return httpReq{"POST", base + "/search", jsonS(map[string]any{"filter": f, "limit": 2}), "search-bad-filter"}
	case 7: // unknown ids / bad ids
		id := []string{"999", "abc", "-1", "1.5", "", "18446744073709551616", "1/2"}[rng.Intn(7)]
		if rng.Intn(2) == 0 {
			return httpReq{"DELETE", base + "/records/" + id, "", "delete-unknown-or-bad-id"}
		}
		return httpReq{"PUT", base + "/records/" + id + "/metadata", jsonS(map[string]any{"metadata": map[string]string{"z": "y"}}), "update-unknown-or-bad-id"}
	case 8: // arbitrary paths and methods
		p := []string{"/", "/api", "/api/v1", "/api/v1/collections/", "/api/v1/collections//", base + "/", base + "/records/", base + "/unknown", base + "/records/1/metadata/extra", "/api/v1/collections/c1/ids", "/api/v1/collections/c1/ids/x", "/x/y/z", base + "/search/more"}[rng.Intn(13)]
		m := []string{"GET", "POST", "PUT", "DELETE", "PATCH", "HEAD", "OPTIONS"}[rng.Intn(7)]
		return httpReq{m, p, []string{"", "{}", "[]"}[rng.Intn(3)], "arbitrary-path-method"}
	case 9: // text requests need the embedding service (offline: 5xx, no state change)
		if rng.Intn(2) == 0 {
			return httpReq{"POST", base + "/records", jsonS([]map[string]any{{"id": 400, "text": "hello", "metadata": map[string]string{}}}), "insert-text-offline"}
		}
		return httpReq{"POST", base + "/search", jsonS(map[string]any{"text": "hello", "k": 2}), "search-text-offline"}
	case 10: // huge / odd numbers
		return httpReq{"POST", base + "/search", jsonS(map[string]any{"vector": vec(3), "k": []any{-1, 1 << 40, 0}[rng.Intn(3)], "offset": -5, "limit": -2, "radius": []any{-1.0, 1e308}[rng.Intn(2)]}), "search-odd-numbers"}
	case 11: // a listing (no k, no radius, no vector) with odd paging values
		lim := []string{"-1", "-5", "-9223372036854775808", "9223372036854775807", "1099511627776", "2147483648", "x", "1.5", "", "0", "3"}[rng.Intn(11)]
		off := []string{"-1", "-9223372036854775808", "9223372036854775807", "1099511627776", "x", "", "0", "2"}[rng.Intn(8)]
		if rng.Intn(2) == 0 {
			return httpReq{"GET", base + "/search?limit=" + lim + "&offset=" + off, "", "listing-odd-paging"}
		}
		num := func(t string) string {
			if t == "" || t == "x" {
				return "0"
			}
			return t
		}
		return httpReq{"POST", base + "/search", `{"limit":` + num(lim) + `,"offset":` + num(off) + `}`, "listing-odd-paging"}
	default: // duplicate create
		return httpReq{"POST", "/api/v1/collections", jsonS(map[string]any{"name": "c1", "distance_function": "cosine", "vector_size": 9, "quantization": 8}), "create-duplicate"}
	}
}

func restC18(o *Opts) {
	res := NewResult("C18", "rest-robustness", o.Seed, o.Tier)
	res.Rule = "well-formed requests of every kind mutated in one field (types, lengths, dimensions, ranges, truncation, unsupported creation options, invalid filters, unknown ids), arbitrary paths and methods, interleaved with valid requests, against the real server binary; " +
		"outcomes: complete HTTP response vs dropped connection, observable state (collections, options, ids, metadata) before/after a 4xx/5xx answer, process liveness; plus the embedded constructor with unsupported options; distinct = distinct request"
	n := 1500
	if o.Tier == "thorough" {
		n = 30000
	}
	if o.Scenarios > 0 {
		n = o.Scenarios
	}
	rng := rand.New(rand.NewSource(o.Seed))
	bin := buildServerBinary(o)
	srv := newRestServer(o, bin, "c18")
	if !srv.start() {
		fatal("server did not start: %s", srv.log.String())
	}
	defer func() { srv.kill() }()
	setup := func() {
		for _, c := range []string{"c1", "c2"} {
			if g := srv.do("GET", "/api/v1/collections/"+c, nil); g.Status == 200 {
				continue // still there: the set-up itself sends valid, first-time requests only
			}
			srv.do("POST", "/api/v1/collections", []byte(jsonS(map[string]any{"name": c, "distance_function": "euclidean", "vector_size": 3, "quantization": 64})))
		}
		for i := 0; i < 6; i++ {
			srv.do("POST", "/api/v1/collections/c1/records", []byte(jsonS([]map[string]any{{"id": i, "vector": []float64{float64(i), 1, 2}, "metadata": map[string]string{"i": fmt.Sprint(i)}}})))
		}
	}
	setup()
	fatalKinds := map[string]int{}
	for i := 0; i < n; i++ {
		iterStart := time.Now()
		if !srv.alive() {
			// not answering before anything was sent in this round: an earlier request left it stuck
			res.Violate("impl-failure", "C18/server-stuck", "the server stopped answering (within 5 s) although the last request had been answered", map[string]any{"iteration": i})
			srv.kill()
			if !srv.start() {
				fatal("server does not restart: %s", srv.log.String())
			}
		}
		// the mutated stream contains legitimate DELETEs of collections: make sure both exist again
		if r := srv.do("GET", "/api/v1/collections/c1", nil); r.Status == 404 {
			setup()
		}
		if r := srv.do("GET", "/api/v1/collections/c2", nil); r.Status == 404 {
			setup()
		}
		// interleave a valid request
		if rng.Intn(3) == 0 {
			id := rng.Intn(8)
			r := srv.do("POST", "/api/v1/collections/c1/records", []byte(jsonS([]map[string]any{{"id": id, "vector": []float64{rng.Float64(), 1, 2}, "metadata": map[string]string{"v": fmt.Sprint(i)}}})))
			if r.Status != 201 {
				res.Violate("impl-failure", "C18/valid-request-refused", fmt.Sprintf("a valid insert was answered %d %s", r.Status, r.Dropped), nil)
			}
		}
		req := genMutatedRequest(rng)
		if fatalKinds[req.Why] >= 3 {
			// this kind of request has taken the server down (or hung it) three times already: reported, not repeated
			res.Hit("skipped-after-3-failures:" + req.Why)
			continue
		}
		before, okb := srv.observe()
		filesBefore := fileNames(srv.folder)
		res.Evaluations++
		res.DistinctCase(req.Method + " " + req.Path + " " + req.Body)
		var body []byte
		if req.Body != "" || req.Method == "POST" || req.Method == "PUT" {
			body = []byte(req.Body)
		}
		t0 := time.Now()
		r := srv.do(req.Method, req.Path, body)
		if os.Getenv("VERIF_DEBUG") != "" {
			fmt.Fprintf(os.Stderr, "c18 %d %s %s %s -> %d in %v (iteration started %v ago)\n", i, req.Why, req.Method, req.Path, r.Status, time.Since(t0), time.Since(iterStart))
		}
		res.Hit(fmt.Sprintf("%s:%d", req.Why, r.Status))
		if i < 3 {
			res.Sample(map[string]any{"request": req, "status": r.Status})
		}
		replay := map[string]any{"request": req}
		if r.Status == 0 || !srv.alive() {
			fatalKinds[req.Why]++
		}
		if r.Status == 0 {
			res.Violate("impl-failure", "C18/dropped-connection/"+req.Why, fmt.Sprintf("%s %s: no complete HTTP response (%s)", req.Method, req.Path, abbreviate(r.Dropped, 120)), replay)
		}
		if !srv.alive() {
			res.Violate("impl-failure", "C18/server-died/"+req.Why, fmt.Sprintf("the server process stopped serving after %s %s", req.Method, req.Path), replay)
			srv.kill()
			if !srv.start() { // does not even start on what the request left behind: begin again on an empty folder
				res.Violate("impl-failure", "C18/server-does-not-restart/"+req.Why, fmt.Sprintf("after %s %s the server no longer starts on its data folder", req.Method, req.Path), replay)
				srv.kill()
				os.RemoveAll(srv.folder)
				os.MkdirAll(srv.folder, 0755)
				if !srv.start() {
					fatal("server does not start on an empty folder: %s", srv.log.String())
				}
				setup()
			}
			continue
		}
		after, oka := srv.observe()
		if okb && oka && (r.Status >= 400 || r.Status == 0) && before != after {
			res.Violate("impl-failure", "C18/rejected-request-changed-state/"+req.Why, fmt.Sprintf("%s %s was answered %d but the observable state changed", req.Method, req.Path, r.Status), map[string]any{"request": req, "before": before, "after": after})
		}
		if r.Status >= 400 {
			// the state on disk is part of "all collections": a file that appears or disappears under a
			// refused request shows up as a different set of collections at the next restart
			if filesAfter := fileNames(srv.folder); filesAfter != filesBefore {
				res.Violate("impl-failure", "C18/rejected-request-changed-files/"+req.Why, fmt.Sprintf("%s %s was answered %d but the data folder changed: %s -> %s", req.Method, req.Path, r.Status, filesBefore, filesAfter), map[string]any{"request": req, "files_before": filesBefore, "files_after": filesAfter})
			}
			// a refused create must not stand in the way of a valid create of the same name
			if req.Method == "POST" && req.Path == "/api/v1/collections" {
				var b struct {
					Name string `json:"name"`
				}
				if json.Unmarshal([]byte(req.Body), &b) == nil && b.Name != "" && b.Name != "c1" && b.Name != "c2" && !strings.ContainsAny(b.Name, "/\\.\x00") {
					if g := srv.do("GET", "/api/v1/collections/"+url.PathEscape(b.Name), nil); g.Status == 404 {
						v := srv.do("POST", "/api/v1/collections", []byte(jsonS(map[string]any{"name": b.Name, "distance_function": "euclidean", "vector_size": 3, "quantization": 64})))
						if dead := !srv.alive(); v.Status != 201 || dead {
							res.Violate("impl-failure", "C18/valid-create-after-refused-create", fmt.Sprintf("after the refused create (%d) of %q a valid create of that name was answered %d %s (server still serving: %v)", r.Status, b.Name, v.Status, abbreviate(v.Dropped, 80), !dead), map[string]any{"request": req})
							if dead {
								srv.kill()
								os.Remove(filepath.Join(srv.folder, b.Name+".dat"))
								if !srv.start() {
									srv.kill()
									os.RemoveAll(srv.folder)
									os.MkdirAll(srv.folder, 0755)
									srv.start()
									setup()
								}
							}
						}
						srv.do("DELETE", "/api/v1/collections/"+url.PathEscape(b.Name), nil)
						res.Hit("followup-create")
					}
				}
			}
		}
		if okb && oka {
			res.TracesValidated++
		}
	}
	// the embedded constructor
	for _, q := range []int{7, 1, 3, 12, 128, -4, 64, 8, 0} {
		for _, d := range []int{3, 0, -2} {
			if (q == 0 || q == 64 || q == 8) && d > 0 {
				continue // supported: not what this grid is about
			}
			path := filepath.Join(o.Scratch, "ctor.dat")
			os.Remove(path)
			res.Evaluations++
			out := guard(func() string {
				c, err := syzgydb.NewCollection(syzgydb.CollectionOptions{Name: path, DimensionCount: d, Quantization: q, FileMode: syzgydb.CreateAndOverwrite})
				if err != nil {
					return "err"
				}
				defer c.Close()
				v := make([]float64, max(d, 0))
				c.AddDocument(1, v, []byte("{}"))
				if _, err := c.GetDocument(1); err != nil {
					return "unusable"
				}
				return "ok"
			})
			supported := (q == 4 || q == 8 || q == 16 || q == 32 || q == 64) && d > 0
			if _, statErr := os.Stat(path); out == "err" && statErr == nil {
				res.Violate("impl-failure", "C18/refused-constructor-left-a-file", fmt.Sprintf("NewCollection(quantization=%d, dimension=%d) returned an error but left %s behind (a later open of that name finds a collection that cannot store documents)", q, d, filepath.Base(path)), map[string]any{"quantization": q, "dimension": d})
			}
			if !supported && out != "err" {
				res.Violate("impl-failure", "C18/constructor-accepts-unsupported-options", fmt.Sprintf("NewCollection(quantization=%d, dimension=%d) returned a collection (%s) instead of an error", q, d, out), map[string]any{"quantization": q, "dimension": d})
			}
			os.Remove(path)
		}
	}
	res.Write(o.Out)
}

func init() { subcommands["rest-C18"] = restC18 }

// names of the files in the data folder
func fileNames(folder string) string {
	ents, _ := os.ReadDir(folder)
	var names []string
	for _, e := range ents {
		names = append(names, e.Name())
	}
	sort.Strings(names)
	return strings.Join(names, ",")
}
