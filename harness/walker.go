package main

import (
	"encoding/binary"
	"fmt"
	"hash/crc32"
)

// An independent reading of the span-file grammar (spanfile.go header comment), used as the
// direct C09 oracle on the implementation's bytes. It shares no code with /repo or the model.

type wSpan struct {
	Off, Len int
	Active   bool
	ID       string
	Seq      uint64
	Streams  map[int][]byte
}

func w7(b []byte, at int) (uint64, int, bool) {
	var v uint64
	for ; at < len(b); at++ {
		d := b[at]
		v = v<<7 | uint64(d&0x7f)
		if d&0x80 == 0 {
			return v, at + 1, true
		}
	}
	return 0, 0, false
}

// walkFile returns the spans of a gap-free chain or an error describing the first defect.
func walkFile(f []byte) ([]wSpan, error) {
	var out []wSpan
	off := 0
	for off < len(f) {
		if off+8 > len(f) {
			return out, fmt.Errorf("trailing %d bytes at %d are not a span", len(f)-off, off)
		}
		magic := binary.BigEndian.Uint32(f[off:])
		l := int(binary.BigEndian.Uint32(f[off+4:]))
		if magic != 0x5350414E && magic != 0x46524545 {
			return out, fmt.Errorf("bad magic %08x at %d", magic, off)
		}
		if l < 15 || off+l > len(f) {
			return out, fmt.Errorf("bad length %d at %d (file %d)", l, off, len(f))
		}
		sp := wSpan{Off: off, Len: l, Active: magic == 0x5350414E}
		if sp.Active {
			body := f[off : off+l]
			if crc32.ChecksumIEEE(body[:l-4]) != binary.BigEndian.Uint32(body[l-4:]) {
				return out, fmt.Errorf("active span at %d fails its checksum", off)
			}
			seq, at, ok := w7(body, 8)
			if !ok {
				return out, fmt.Errorf("span at %d: bad sequence", off)
			}
			idl, at, ok := w7(body, at)
			if !ok || at+int(idl) >= l-4 {
				return out, fmt.Errorf("span at %d: bad id length", off)
			}
			sp.Seq = seq
			sp.ID = string(body[at : at+int(idl)])
			at += int(idl)
			ns := int(body[at])
			at++
			sp.Streams = map[int][]byte{}
			for i := 0; i < ns; i++ {
				if at >= l-4 {
					return out, fmt.Errorf("span at %d: stream %d starts beyond payload", off, i)
				}
				sid := int(body[at])
				at++
				sl, a2, ok := w7(body, at)
				if !ok || a2+int(sl) > l-4 {
					return out, fmt.Errorf("span at %d: stream %d overruns", off, i)
				}
				sp.Streams[sid] = body[a2 : a2+int(sl)]
				at = a2 + int(sl)
			}
			for _, p := range body[at : l-4] {
				if p != 0 {
					return out, fmt.Errorf("span at %d: non-zero padding", off)
				}
			}
			if l-4-at >= 15 {
				return out, fmt.Errorf("span at %d: %d bytes of padding (>= minimum span)", off, l-4-at)
			}
		}
		out = append(out, sp)
		off += l
	}
	return out, nil
}

// freeRuns returns the maximal runs of consecutive FREE spans as (start,len).
func freeRuns(spans []wSpan) [][2]int {
	var runs [][2]int
	for _, s := range spans {
		if s.Active {
			continue
		}
		if n := len(runs); n > 0 && runs[n-1][0]+runs[n-1][1] == s.Off {
			runs[n-1][1] += s.Len
		} else {
			runs = append(runs, [2]int{s.Off, s.Len})
		}
	}
	return runs
}

// checkWellFormed is the C09 predicate: gap-free chain, one active span per id, index = active
// spans, free map = maximal FREE runs.
func checkWellFormed(f []byte, index map[string]uint64, fm [][2]int) error {
	spans, err := walkFile(f)
	if err != nil {
		return err
	}
	seen := map[string]int{}
	for _, s := range spans {
		if !s.Active {
			continue
		}
		if prev, dup := seen[s.ID]; dup {
			return fmt.Errorf("id %q is active twice (offsets %d and %d)", s.ID, prev, s.Off)
		}
		seen[s.ID] = s.Off
	}
	if len(seen) != len(index) {
		return fmt.Errorf("index has %d entries, file has %d active spans", len(index), len(seen))
	}
	for id, off := range index {
		if o, ok := seen[id]; !ok || o != int(off) {
			return fmt.Errorf("index entry %q@%d does not match the file (active at %d, present=%v)", id, off, o, ok)
		}
	}
	runs := freeRuns(spans)
	if len(runs) != len(fm) {
		return fmt.Errorf("free map %v differs from FREE runs %v", fm, runs)
	}
	for i := range runs {
		if runs[i] != fm[i] {
			return fmt.Errorf("free map %v differs from FREE runs %v", fm, runs)
		}
	}
	return nil
}
