package main

import (
	"bufio"
	"bytes"
	"encoding/binary"
	"encoding/hex"
	"fmt"
	"hash/crc32"
	"io"
	"math/rand"
	"os"
	"os/exec"
	"path/filepath"
	"sort"
	"strings"

	"github.com/smhanov/syzgydb"
)

// ---------- child: opens whatever file it is told to and reports what it can read ----------

func faultsChild(o *Opts) {
	in := bufio.NewReader(os.Stdin)
	out := bufio.NewWriter(os.Stdout)
	for {
		line, err := in.ReadString('\n')
		if err != nil {
			return
		}
		path := strings.TrimSpace(line)
		res := guard(func() string {
			c, err := syzgydb.NewCollection(syzgydb.CollectionOptions{Name: path, FileMode: syzgydb.ReadWrite})
			if err != nil {
				return "err"
			}
			defer c.Close()
			ids := c.GetAllIDs()
			var parts []string
			opt := c.GetOptions()
			for _, id := range ids {
				d, err := c.GetDocument(id)
				if err != nil {
					parts = append(parts, fmt.Sprintf("%d:unreadable", id))
					continue
				}
				codes := make([]uint64, len(d.Vector))
				for i, v := range d.Vector {
					codes[i] = syzgydb.VerifQuantize(v, opt.Quantization)
				}
				parts = append(parts, fmt.Sprintf("%d:%s:%s", id, hexW(d.Metadata), joinU(codes)))
			}
			return fmt.Sprintf("ok q=%d d=%d m=%d %s", opt.Quantization, opt.DimensionCount, opt.DistanceMethod, strings.Join(parts, ";"))
		})
		fmt.Fprintln(out, res)
		out.Flush()
	}
}

type faultWorker struct {
	cmd *exec.Cmd
	in  io.WriteCloser
	out *bufio.Reader
}

func startWorker() *faultWorker {
	cmd := exec.Command(os.Args[0], "faults-child")
	in, _ := cmd.StdinPipe()
	outp, _ := cmd.StdoutPipe()
	if err := cmd.Start(); err != nil {
		fatal("start worker: %v", err)
	}
	return &faultWorker{cmd: cmd, in: in, out: bufio.NewReaderSize(outp, 1<<20)}
}

func (w *faultWorker) open(path string) (string, bool) {
	io.WriteString(w.in, path+"\n")
	line, err := w.out.ReadString('\n')
	if err != nil {
		w.cmd.Wait()
		return "crash", false
	}
	return strings.TrimSpace(line), true
}

func (w *faultWorker) stop() { w.in.Close(); w.cmd.Wait() }

// ---------- faults ----------

type fault struct {
	Kind string `json:"kind"`
	Off  int    `json:"off"`
	XOR  string `json:"xor"` // hex bytes xored into the file starting at Off
}

func applyFault(base []byte, f fault) []byte {
	x, _ := hex.DecodeString(f.XOR)
	out := append([]byte{}, base...)
	for i, b := range x {
		if f.Off+i < len(out) {
			out[f.Off+i] ^= b
		}
	}
	return out
}

type version struct {
	meta  []byte
	codes []uint64
}

type faultFile struct {
	base     []byte
	versions map[uint64][]version // everything ever written for an id
	current  map[uint64]version   // live documents
	spans    []wSpan
	desc     string
}

// buildFaultFile runs a short history and returns the resulting file with the full version history.
func buildFaultFile(o *Opts, rng *rand.Rand, idx int, forged bool) *faultFile {
	path := filepath.Join(o.Scratch, fmt.Sprintf("ff-%d.dat", idx))
	os.Remove(path)
	defer os.Remove(path)
	q := quants[idx%5]
	dim := 1 + rng.Intn(4)
	c, err := syzgydb.NewCollection(syzgydb.CollectionOptions{Name: path, DistanceMethod: idx % 2, DimensionCount: dim, Quantization: q, FileMode: syzgydb.CreateAndOverwrite})
	if err != nil {
		fatal("NewCollection: %v", err)
	}
	ff := &faultFile{versions: map[uint64][]version{}, current: map[uint64]version{}, desc: fmt.Sprintf("q=%d dim=%d", q, dim)}
	add := func(id uint64, md []byte) {
		v := make([]float64, dim)
		for i := range v {
			v[i] = rng.Float64()*2 - 1
		}
		codes := make([]uint64, dim)
		for i := range v {
			codes[i] = syzgydb.VerifQuantize(v[i], q)
		}
		c.AddDocument(id, v, md)
		ver := version{meta: md, codes: codes}
		ff.versions[id] = append(ff.versions[id], ver)
		ff.current[id] = ver
	}
	if forged {
		// a metadata blob that contains a complete, checksummed span image for id 9 followed by a FREE
		// header that re-synchronises the walk with the next real span
		add(1, []byte(`{"a":1}`))
		fvec := make([]byte, syzgydb.VerifGetVectorSize(q, dim))
		inner := []byte{0x53, 0x50, 0x41, 0x4E, 0, 0, 0, 0, 100, 1, '9', 2, 0, 5, 'F', 'A', 'K', 'E', '!', 1, byte(len(fvec))}
		inner = append(inner, fvec...)
		binary.BigEndian.PutUint32(inner[4:8], uint32(len(inner)+4))
		inner = binary.BigEndian.AppendUint32(inner, crc32.ChecksumIEEE(inner))
		// after the inner span: FREE header whose length reaches the end of the enclosing span
		encVec := syzgydb.VerifGetVectorSize(q, dim)
		tail := 1 + 1 + encVec + 4 // stream id + len code + vector + checksum of the enclosing span
		free := []byte{0x46, 0x52, 0x45, 0x45, 0, 0, 0, 0}
		fill := 24
		binary.BigEndian.PutUint32(free[4:8], uint32(8+fill+tail))
		blob := append(append(inner, free...), bytes.Repeat([]byte{0x2e}, fill)...)
		add(2, blob)
		add(3, []byte(`{"c":3}`))
	} else {
		n := 6 + rng.Intn(10)
		for i := 0; i < n; i++ {
			id := uint64(rng.Intn(6))
			switch rng.Intn(5) {
			case 0:
				if _, ok := ff.current[id]; ok {
					c.VerifRemoveDocument(id)
					delete(ff.current, id)
				}
			case 1:
				if cur, ok := ff.current[id]; ok {
					md := genMeta(rng.Int63(), rng.Intn(40))
					c.UpdateDocument(id, md)
					ver := version{meta: md, codes: cur.codes}
					ff.versions[id] = append(ff.versions[id], ver)
					ff.current[id] = ver
				}
			default:
				add(id, genMeta(rng.Int63(), rng.Intn(60)))
			}
		}
	}
	ff.base = c.VerifSpanFile().VerifFileBytes()
	c.Close()
	ff.spans, _ = walkFile(ff.base)
	return ff
}

func (ff *faultFile) genFaults(rng *rand.Rand, tier string) []fault {
	var fs []fault
	// occupied prefix: up to the end of the last active span plus the following FREE header
	end := 0
	for _, s := range ff.spans {
		if s.Active {
			end = s.Off + s.Len
		}
	}
	end += 16
	if end > len(ff.base) {
		end = len(ff.base)
	}
	for off := 0; off < end; off++ {
		for bit := 0; bit < 8; bit++ {
			fs = append(fs, fault{"bit", off, fmt.Sprintf("%02x", 1<<bit)})
		}
	}
	nTail := 300
	if tier == "thorough" {
		nTail = 4000
	}
	for i := 0; i < nTail && end < len(ff.base); i++ {
		fs = append(fs, fault{"bit-tail", end + rng.Intn(len(ff.base)-end), fmt.Sprintf("%02x", 1<<rng.Intn(8))})
	}
	// byte-aligned bursts of 2..4 bytes at every offset of the occupied prefix
	per := 1
	if tier == "thorough" {
		per = 6
	}
	for off := 0; off < end; off++ {
		for k := 0; k < per; k++ {
			n := 2 + rng.Intn(3)
			b := make([]byte, n)
			rng.Read(b)
			if b[0] == 0 {
				b[0] = 1
			}
			fs = append(fs, fault{"burst-aligned", off, hex.EncodeToString(b)})
		}
	}
	// extreme 4-byte bursts at every offset: all bits inverted, top bit only, all but the top bit
	// (a length, offset or count field then holds a value near 2^32 or 2^31, where 32-bit arithmetic wraps)
	for off := 0; off < end; off++ {
		for _, x := range []string{"ffffffff", "80000000", "7fffffff", "ffff0000"} {
			fs = append(fs, fault{"burst-extreme", off, x})
		}
	}
	// unaligned bursts: <= 32 consecutive bits in CRC bit order (LSB first within a byte)
	for i := 0; i < end*per; i++ {
		off := rng.Intn(end)
		start := rng.Intn(8)
		width := 2 + rng.Intn(31)
		b := make([]byte, 5)
		for j := 0; j < width; j++ {
			if j == 0 || j == width-1 || rng.Intn(2) == 0 {
				p := start + j
				b[p/8] |= 1 << (p % 8)
			}
		}
		fs = append(fs, fault{"burst-unaligned", off, hex.EncodeToString(b)})
	}
	// targeted: header fields of every span
	for _, s := range ff.spans {
		for k := 0; k < 4*per; k++ {
			b := make([]byte, 4)
			rng.Read(b)
			fs = append(fs, fault{"length-field", s.Off + 4, hex.EncodeToString(b)})
		}
		// the length field set to values at the edges of the 32-bit range (xor pattern = target xor current)
		for _, target := range []uint32{0xffffffff, 0xfffffff0, 0x80000000, 0x7fffffff, 0xffff0000, uint32(len(ff.base)), uint32(len(ff.base)) - uint32(s.Off) + 1, 0, 1, 14, 15} {
			x := target ^ uint32(s.Len)
			if x != 0 {
				fs = append(fs, fault{"length-field", s.Off + 4, fmt.Sprintf("%08x", x)})
			}
		}
		fs = append(fs, fault{"magic-swap", s.Off, "150217040b"[:8]}) // SPAN xor FREE
		if s.Active && s.Len >= 6 {
			fs = append(fs, fault{"straddle", s.Off + s.Len - 6, "61d8f4ee"})
		}
	}
	return fs
}

func parseChildDocs(line string) (map[uint64]version, map[uint64]bool, bool) {
	docs := map[uint64]version{}
	unreadable := map[uint64]bool{}
	f := strings.Fields(line)
	if len(f) < 4 || f[0] != "ok" {
		return nil, nil, false
	}
	if len(f) == 4 {
		return docs, unreadable, true
	}
	for _, e := range strings.Split(f[4], ";") {
		p := strings.Split(e, ":")
		var id uint64
		fmt.Sscan(p[0], &id)
		if len(p) == 2 {
			unreadable[id] = true
			continue
		}
		md := []byte{}
		if p[1] != "-" {
			md, _ = hex.DecodeString(p[1])
		}
		var codes []uint64
		if p[2] != "-" {
			for _, c := range strings.Split(p[2], ",") {
				var x uint64
				fmt.Sscan(c, &x)
				codes = append(codes, x)
			}
		}
		docs[id] = version{meta: md, codes: codes}
	}
	return docs, unreadable, true
}

// modelOpen runs the same open on the Lean model and renders the result like the child does.
func modelOpen(drv *Driver, path string, file []byte) string {
	if r := drv.Send("disk " + hexW(file)); r != "ok" {
		return "model-bad-op"
	}
	r := drv.SendNew(1, 0, 0, 0, path)
	tag := strings.Fields(r)[0]
	if tag != "ok" {
		return tag
	}
	ids := strings.Fields(drv.Send("ids"))
	var parts []string
	if len(ids) == 2 && ids[1] != "-" {
		for _, id := range strings.Split(ids[1], ",") {
			g := drv.Send("get " + id)
			gf := strings.Fields(g)
			if gf[0] != "doc" {
				parts = append(parts, id+":unreadable")
			} else {
				parts = append(parts, id+":"+gf[1]+":"+gf[2])
			}
		}
	}
	return "ok " + strings.Join(parts, ";")
}

func faultsC08(o *Opts) {
	res := NewResult("C08", "faults", o.Seed, o.Tier)
	res.Rule = "fault enumeration on the files left by short histories (all quantizations, both metrics): every single-bit flip of the occupied prefix, byte-aligned bursts of 2-4 bytes at every offset, unaligned bursts of <= 32 bits (CRC bit order), " +
		"random values in every span's length field, magic swaps, the 4-byte straddle pattern at every span end, plus a crafted forged-span file; each corrupted file is opened by the real code in a child process and by the Lean model; " +
		"distinct = distinct (file, fault)"
	nfiles := 3
	if o.Tier == "thorough" {
		nfiles = 15
	}
	if o.Scenarios > 0 {
		nfiles = o.Scenarios
	}
	rng := rand.New(rand.NewSource(o.Seed))
	drv := StartDriver()
	defer drv.Close()
	w := startWorker()
	defer func() { w.stop() }()
	path := filepath.Join(o.Scratch, "faulty.dat")
	for fi := 0; fi <= nfiles; fi++ {
		forged := fi == nfiles
		ff := buildFaultFile(o, rng, fi, forged)
		var faults []fault
		if forged {
			// the walk must be sent from span 1 into the blob of span 2: enlarge span 1's length
			var s1, s2 *wSpan
			for i := range ff.spans {
				if ff.spans[i].Active && ff.spans[i].ID == "1" {
					s1 = &ff.spans[i]
				}
				if ff.spans[i].Active && ff.spans[i].ID == "2" {
					s2 = &ff.spans[i]
				}
			}
			if s1 != nil && s2 != nil {
				blobOff := bytes.Index(ff.base[s2.Off:s2.Off+s2.Len], []byte{0x53, 0x50, 0x41, 0x4E, 0, 0, 0})
				// skip the enclosing span's own magic at 0
				blobOff = 8 + bytes.Index(ff.base[s2.Off+8:s2.Off+s2.Len], []byte{0x53, 0x50, 0x41, 0x4E})
				newLen := uint32(s2.Off + blobOff - s1.Off)
				x := make([]byte, 4)
				binary.BigEndian.PutUint32(x, uint32(s1.Len)^newLen)
				faults = append(faults, fault{"forged-span-length-burst", s1.Off + 4, hex.EncodeToString(x)})
			}
		} else {
			faults = ff.genFaults(rng, o.Tier)
		}
		res.Hit(fmt.Sprintf("file:%s:%dbytes:%dspans", ff.desc, len(ff.base), len(ff.spans)))
		for _, f := range faults {
			bad := applyFault(ff.base, f)
			if bytes.Equal(bad, ff.base) {
				continue
			}
			res.Evaluations++
			res.Hit("fault:" + f.Kind)
			res.DistinctCase(fmt.Sprintf("%d/%s/%d/%s", fi, f.Kind, f.Off, f.XOR))
			os.WriteFile(path, bad, 0644)
			real, alive := w.open(path)
			if !alive {
				w = startWorker()
			}
			replay := map[string]any{"file_hex": hex.EncodeToString(ff.base), "fault": f, "impl": abbreviate(real, 300)}
			model := modelOpen(drv, path, bad)
			rf := strings.Fields(real)
			realCanon := real
			if len(rf) >= 4 && rf[0] == "ok" {
				realCanon = "ok " + strings.Join(rf[4:], "")
			}
			if strings.TrimSpace(realCanon) != strings.TrimSpace(model) {
				res.Violate("tie-broken", "tie/faults/open", fmt.Sprintf("fault %+v: model %s, implementation %s", f, abbreviate(model, 200), abbreviate(realCanon, 200)), replay)
			} else {
				res.TracesValidated++
			}
			if len(res.Samples) < 3 {
				res.Sample(map[string]any{"fault": f, "impl": abbreviate(real, 120)})
			}
			if real == "panic" || real == "crash" {
				res.Violate("impl-failure", "C08/"+real+"-on-open/"+f.Kind, fmt.Sprintf("fault %+v: opening the file ends in a %s", f, real), replay)
				continue
			}
			if real == "err" {
				res.Hit("outcome:error")
				continue
			}
			docs, _, ok := parseChildDocs(real)
			if !ok {
				res.Violate("tie-broken", "tie/faults/child-output", "unparsable child output "+abbreviate(real, 100), replay)
				continue
			}
			res.Hit("outcome:opened")
			// nothing altered, nothing fabricated
			for id, d := range docs {
				vs, known := ff.versions[id]
				if !known {
					sig := "C08/document-fabricated/" + f.Kind
					if f.Kind == "forged-span-length-burst" {
						sig = "C08/forged-span-via-length-burst"
					}
					res.Violate("impl-failure", sig, fmt.Sprintf("fault %+v: document %d, which was never written, is readable (metadata %q)", f, id, abbreviate(string(d.meta), 40)), replay)
					continue
				}
				match := false
				for _, v := range vs {
					if bytes.Equal(v.meta, d.meta) && eqU(v.codes, d.codes) {
						match = true
					}
				}
				if !match {
					sig := "C08/document-altered/" + f.Kind
					if f.Kind == "straddle" {
						sig = "C08/crc-straddle/61d8f4ee@end-6"
					}
					res.Violate("impl-failure", sig, fmt.Sprintf("fault %+v: document %d is readable but equals no version ever written for it", f, id), replay)
				}
			}
			// damage confined to one record's payload or checksum loses at most that document
			x, _ := hex.DecodeString(f.XOR)
			lo, hi := f.Off, f.Off+len(x)
			for _, s := range ff.spans {
				if s.Active && lo >= s.Off+8 && hi <= s.Off+s.Len {
					var victim uint64
					fmt.Sscan(s.ID, &victim)
					var lost []uint64
					for id, cur := range ff.current {
						if s.ID != "" && id == victim {
							continue
						}
						d, okd := docs[id]
						if !okd || !bytes.Equal(d.meta, cur.meta) || !eqU(d.codes, cur.codes) {
							lost = append(lost, id)
						}
					}
					if len(lost) > 0 && s.ID != "" {
						sort.Slice(lost, func(i, j int) bool { return lost[i] < lost[j] })
						res.Violate("impl-failure", "C08/collateral-loss/"+f.Kind, fmt.Sprintf("fault %+v inside the payload/checksum of record %s also lost or changed documents %v", f, s.ID, lost), replay)
					}
				}
			}
		}
	}
	os.Remove(path)
	res.Write(o.Out)
}

func init() {
	subcommands["faults-C08"] = faultsC08
	subcommands["faults-child"] = faultsChild
}
