package main

import (
	"bytes"
	"fmt"
	"math"
	"math/rand"
	"os"
	"path/filepath"
	"unsafe"

	"github.com/smhanov/syzgydb"
)

// C11: returned values are private snapshots; inputs are not retained.

type held struct {
	what   string
	meta   []byte // the returned slice itself
	vec    []float64
	metaCp []byte // copy taken at return time
	vecCp  []float64
	view   bool
}

func inMapping(c *syzgydb.Collection, b []byte) bool {
	if len(b) == 0 {
		return false
	}
	base, n := c.VerifSpanFile().VerifMmapBounds()
	p := uintptr(unsafe.Pointer(&b[0]))
	return n > 0 && p >= base && p < base+uintptr(n)
}

func snapshotC11(o *Opts) {
	res := NewResult("C11", "snapshot", o.Seed, o.Tier)
	res.Rule = "values returned by GetDocument and by Search in every mode (exact, default, radius, listing; on the creating handle, on a read-only reopen and on a read-write reopen) are tested at return time for pointing into the file mapping (verif accessor), held across later overwrites, removals, space reuse, file growth and Close, and compared with a copy taken at return time; " +
		"caller slices passed to AddDocument/UpdateDocument are compared with a copy at return and mutated after the call; the query vector of every Search (all modes, both metrics, far-from-unit lengths, with and without a filter) is compared with a copy at return; distinct = distinct held value"
	nscen := 40
	if o.Tier == "thorough" {
		nscen = 600
	}
	if o.Scenarios > 0 {
		nscen = o.Scenarios
	}
	rng := rand.New(rand.NewSource(o.Seed))
	for si := 0; si < nscen; si++ {
		path := filepath.Join(o.Scratch, "snap.dat")
		os.Remove(path)
		dim := 1 + rng.Intn(4)
		q := quants[si%5]
		c, err := syzgydb.NewCollection(syzgydb.CollectionOptions{Name: path, DistanceMethod: si % 2, DimensionCount: dim, Quantization: q, FileMode: syzgydb.CreateAndOverwrite})
		if err != nil {
			fatal("NewCollection: %v", err)
		}
		var helds []*held
		hold := func(what string, meta []byte, vec []float64) {
			h := &held{what: what, meta: meta, vec: vec, metaCp: bytes.Clone(meta), vecCp: append([]float64{}, vec...)}
			h.view = inMapping(c, meta)
			res.Evaluations++
			res.DistinctCase(fmt.Sprintf("%d/%d", si, len(helds)))
			res.Hit("held:" + what)
			if h.view {
				res.Violate("impl-failure", "C11/result-aliases-mapping/"+what, fmt.Sprintf("%s returned a Metadata slice that points into the file mapping (it changes under later writes and faults after growth or Close)", what),
					map[string]any{"scenario": si, "api": what})
			}
			helds = append(helds, h)
		}
		vecOf := func() []float64 {
			v := make([]float64, dim)
			for i := range v {
				v[i] = rng.Float64()*2 - 1
			}
			return v
		}
		// every Search goes through here: the caller's query vector must come back bit for bit (in every mode, both
		// metrics, with and without a filter), also when the query is far from unit length
		searchQ := func(cc *syzgydb.Collection, mode string, args syzgydb.SearchArgs) []syzgydb.SearchResult {
			if args.Vector != nil && rng.Intn(3) == 0 {
				s := []float64{1e-3, 7, 250}[rng.Intn(3)]
				for j := range args.Vector {
					args.Vector[j] *= s
				}
			}
			before := append([]float64{}, args.Vector...)
			if rng.Intn(3) == 0 {
				args.Filter = func(id uint64, metadata []byte) bool { return id%2 == 0 }
			}
			out := cc.Search(args).Results
			res.Evaluations++
			res.Hit("query-vector:" + mode)
			for j := range before {
				if math.Float64bits(before[j]) != math.Float64bits(args.Vector[j]) {
					res.Violate("impl-failure", "C11/input-modified/"+mode, fmt.Sprintf("Search (%s, distance method %d) modified the caller's query vector: %v before the call, %v after", mode, si%2, before, args.Vector),
						map[string]any{"scenario": si, "mode": mode, "metric": si % 2, "query": before})
					break
				}
			}
			return out
		}
		live := map[uint64]bool{}
		nops := 30 + rng.Intn(40)
		for i := 0; i < nops; i++ {
			id := uint64(rng.Intn(8))
			switch k := rng.Intn(100); {
			case k < 35:
				vec := vecOf()
				md := genMeta(rng.Int63(), 1+rng.Intn(300))
				if rng.Intn(10) == 0 {
					md = genMeta(rng.Int63(), 5000+rng.Intn(3000)) // forces growth (remap)
					res.Hit("growth")
				}
				vecBefore := append([]float64{}, vec...)
				mdBefore := bytes.Clone(md)
				c.AddDocument(id, vec, md)
				live[id] = true
				for j := range vec {
					if math.Float64bits(vec[j]) != math.Float64bits(vecBefore[j]) {
						res.Violate("impl-failure", "C11/input-modified", "AddDocument modified the caller's vector", map[string]any{"scenario": si})
					}
				}
				if !bytes.Equal(md, mdBefore) {
					res.Violate("impl-failure", "C11/input-modified", "AddDocument modified the caller's metadata", map[string]any{"scenario": si})
				}
				// the caller reuses its buffers
				for j := range md {
					md[j] ^= 0xff
				}
				for j := range vec {
					vec[j] = 42
				}
				d, err := c.GetDocument(id)
				res.Evaluations++
				if err != nil || !bytes.Equal(d.Metadata, mdBefore) {
					res.Violate("impl-failure", "C11/input-retained", "mutating the metadata slice after AddDocument changed the stored document", map[string]any{"scenario": si})
				}
				want := syzgydb.VerifDecodeVector(syzgydb.VerifEncodeVector(vecBefore, q), dim, q)
				if err == nil {
					for j := range want {
						if math.Float64bits(want[j]) != math.Float64bits(d.Vector[j]) {
							res.Violate("impl-failure", "C11/input-retained", "mutating the vector slice after AddDocument changed the stored document", map[string]any{"scenario": si})
							break
						}
					}
				}
			case k < 45:
				if live[id] {
					md := genMeta(rng.Int63(), 1+rng.Intn(200))
					mdBefore := bytes.Clone(md)
					c.UpdateDocument(id, md)
					if !bytes.Equal(md, mdBefore) {
						res.Violate("impl-failure", "C11/input-modified", "UpdateDocument modified the caller's metadata", map[string]any{"scenario": si})
					}
					for j := range md {
						md[j] = 0
					}
					if d, err := c.GetDocument(id); err != nil || !bytes.Equal(d.Metadata, mdBefore) {
						res.Violate("impl-failure", "C11/input-retained", "mutating the metadata slice after UpdateDocument changed the stored document", map[string]any{"scenario": si})
					}
				}
			case k < 55:
				if live[id] {
					c.VerifRemoveDocument(id)
					delete(live, id)
				}
			case k < 70:
				if d, err := c.GetDocument(id); err == nil {
					hold("GetDocument", d.Metadata, d.Vector)
				}
			case k < 80:
				for _, r := range searchQ(c, "exact", syzgydb.SearchArgs{Vector: vecOf(), K: 3, Precision: "exact"}) {
					hold("Search(exact)", r.Metadata, nil)
				}
			case k < 90:
				args, mode := syzgydb.SearchArgs{Vector: vecOf(), K: 3}, "default"
				if rng.Intn(2) == 0 {
					args, mode = syzgydb.SearchArgs{Vector: vecOf(), Radius: 0.8}, "radius"
				}
				for _, r := range searchQ(c, mode, args) {
					hold("Search("+mode+")", r.Metadata, nil)
				}
			default:
				for _, r := range c.Search(syzgydb.SearchArgs{Limit: 3}).Results {
					hold("Search(listing)", r.Metadata, nil)
				}
			}
			// every held private value still equals its copy
			for _, h := range helds {
				if h.view {
					continue
				}
				if !bytes.Equal(h.meta, h.metaCp) {
					res.Violate("impl-failure", "C11/snapshot-changed/"+h.what, "a held result changed after a later operation", map[string]any{"scenario": si})
				}
				for j := range h.vec {
					if math.Float64bits(h.vec[j]) != math.Float64bits(h.vecCp[j]) {
						res.Violate("impl-failure", "C11/snapshot-changed/"+h.what, "a held vector changed after a later operation", map[string]any{"scenario": si})
					}
				}
			}
		}
		c.Close()
		ok := 0
		for _, h := range helds {
			if h.view {
				continue // reading a view of an unmapped file would fault: that is the violation already reported
			}
			if !bytes.Equal(h.meta, h.metaCp) {
				res.Violate("impl-failure", "C11/snapshot-changed/"+h.what, "a held result changed after Close", map[string]any{"scenario": si})
			}
			ok++
		}
		res.TracesValidated += ok
		// the same file reopened read-only and read-write: results of a reopened collection are private too
		// (a read-only mapping is unmapped by Close like any other, and another handle may rewrite the file)
		for _, mode := range []struct {
			name string
			fm   syzgydb.FileMode
		}{{"read-only", syzgydb.ReadOnly}, {"reopened", syzgydb.ReadWrite}} {
			c2, err := syzgydb.NewCollection(syzgydb.CollectionOptions{Name: path, FileMode: mode.fm})
			if err != nil {
				res.Violate("impl-failure", "C11/reopen-failed", fmt.Sprintf("reopening the file %s: %v", mode.name, err), map[string]any{"scenario": si})
				continue
			}
			check := func(what string, meta []byte) {
				res.Evaluations++
				res.Hit("held:" + what)
				if inMapping(c2, meta) {
					res.Violate("impl-failure", "C11/result-aliases-mapping/"+what, fmt.Sprintf("%s returned a Metadata slice that points into the file mapping (it faults after Close and changes when the file is rewritten through another handle)", what),
						map[string]any{"scenario": si, "api": what})
				} else {
					res.TracesValidated++
				}
			}
			for id := range live {
				if d, err := c2.GetDocument(id); err == nil {
					check("GetDocument("+mode.name+")", d.Metadata)
				}
			}
			for _, r := range searchQ(c2, "exact,"+mode.name, syzgydb.SearchArgs{Vector: vecOf(), K: 3, Precision: "exact"}) {
				check("Search(exact,"+mode.name+")", r.Metadata)
			}
			for _, r := range searchQ(c2, "default,"+mode.name, syzgydb.SearchArgs{Vector: vecOf(), K: 3}) {
				check("Search(default,"+mode.name+")", r.Metadata)
			}
			for _, r := range searchQ(c2, "radius,"+mode.name, syzgydb.SearchArgs{Vector: vecOf(), Radius: 10}) {
				check("Search(radius,"+mode.name+")", r.Metadata)
			}
			for _, r := range c2.Search(syzgydb.SearchArgs{Limit: 3}).Results {
				check("Search(listing,"+mode.name+")", r.Metadata)
			}
			c2.Close()
		}
		if si == 0 {
			res.Sample(map[string]any{"scenario": si, "held_values": len(helds), "dim": dim, "quant": q})
		}
		os.Remove(path)
	}
	res.Write(o.Out)
}

func init() { subcommands["snapshot-C11"] = snapshotC11 }
