package main

import (
	"encoding/hex"
	"fmt"
	"sort"
	"strconv"
	"strings"

	"github.com/smhanov/syzgydb"
)

func hexW(b []byte) string {
	if len(b) == 0 {
		return "-"
	}
	return hex.EncodeToString(b)
}

func fnv1a(b []byte) uint64 {
	h := uint64(0xcbf29ce484222325)
	for _, x := range b {
		h = (h ^ uint64(x)) * 0x100000001b3
	}
	return h
}

func joinU(xs []uint64) string {
	if len(xs) == 0 {
		return "-"
	}
	s := make([]string, len(xs))
	for i, x := range xs {
		s[i] = strconv.FormatUint(x, 10)
	}
	return strings.Join(s, ",")
}

// RealColl wraps the implementation and renders results in the driver's reply format.
type RealColl struct {
	Path string
	C    *syzgydb.Collection
	Opt  syzgydb.CollectionOptions
}

func guard(f func() string) (out string) {
	defer func() {
		if r := recover(); r != nil {
			out = "panic"
		}
	}()
	return f()
}

func (r *RealColl) New(mode, metric, dim, quant int) string {
	return guard(func() string {
		c, err := syzgydb.NewCollection(syzgydb.CollectionOptions{Name: r.Path, DistanceMethod: metric,
			DimensionCount: dim, Quantization: quant, FileMode: syzgydb.FileMode(mode)})
		if err != nil {
			r.C = nil
			return "err"
		}
		r.C = c
		r.Opt = c.GetOptions()
		return "ok"
	})
}

func (r *RealColl) Codes(vec []float64) []uint64 {
	out := make([]uint64, len(vec))
	for i, v := range vec {
		out[i] = syzgydb.VerifQuantize(v, r.Opt.Quantization)
	}
	return out
}

func (r *RealColl) Add(id uint64, vec []float64, md []byte) string {
	return guard(func() string { r.C.AddDocument(id, vec, md); return "ok" })
}

func (r *RealColl) Upd(id uint64, md []byte) string {
	return guard(func() string {
		if err := r.C.UpdateDocument(id, md); err != nil {
			return "err"
		}
		return "ok"
	})
}

func (r *RealColl) Del(id uint64) string {
	return guard(func() string {
		if err := r.C.VerifRemoveDocument(id); err != nil {
			return "err"
		}
		return "ok"
	})
}

// Get renders a document as `doc <meta> <codes>`; the codes are recovered from the returned
// float vector by the implementation's own quantizer (idempotence of that step is C12).
func (r *RealColl) Get(id uint64) (string, *syzgydb.Document) {
	var doc *syzgydb.Document
	s := guard(func() string {
		d, err := r.C.GetDocument(id)
		if err != nil {
			return "err"
		}
		doc = d
		return "doc " + hexW(d.Metadata) + " " + joinU(r.Codes(d.Vector))
	})
	return s, doc
}

func (r *RealColl) IDs() (string, []uint64) {
	var ids []uint64
	s := guard(func() string { ids = r.C.GetAllIDs(); return "ids " + joinU(ids) })
	return s, ids
}

func (r *RealColl) Count() (string, int) {
	n := 0
	s := guard(func() string { n = r.C.GetDocumentCount(); return "n " + strconv.Itoa(n) })
	return s, n
}

func (r *RealColl) Close() string {
	return guard(func() string {
		if r.C == nil {
			return "bad-op"
		}
		if err := r.C.Close(); err != nil {
			return "err"
		}
		r.C = nil
		return "ok"
	})
}

func (r *RealColl) St() string {
	sf := r.C.VerifSpanFile()
	file := sf.VerifFileBytes()
	idx := sf.VerifIndex()
	keys := make([]string, 0, len(idx))
	for k := range idx {
		keys = append(keys, k)
	}
	sort.Strings(keys)
	parts := make([]string, len(keys))
	for i, k := range keys {
		parts[i] = fmt.Sprintf("%s@%d", hexW([]byte(k)), idx[k])
	}
	fm := sf.VerifFreeMap()
	fparts := make([]string, len(fm))
	for i, s := range fm {
		fparts[i] = fmt.Sprintf("%d:%d", s[0], s[1])
	}
	j := func(p []string) string {
		if len(p) == 0 {
			return "-"
		}
		return strings.Join(p, ";")
	}
	return fmt.Sprintf("st len=%d h=%d seq=%d idx=%s fm=%s", len(file), fnv1a(file), sf.VerifSeq(), j(parts), j(fparts))
}
