package main

import (
	"bytes"
	"fmt"
	"math"
	"math/rand"
	"os"
	"path/filepath"
	"sort"
	"strings"

	"github.com/smhanov/syzgydb"
)

// A small in-process collection with a reference copy of what was written.
type refDoc struct {
	id   uint64
	meta []byte
}

type searchColl struct {
	c    *syzgydb.Collection
	path string
	docs map[uint64]*refDoc
	dim  int
	q    int
	m    int
}

func gridVal(rng *rand.Rand) float64 {
	// values that collide often (duplicates, ties) and include zero
	return []float64{0, 0, 0.25, 0.5, -0.5, 1, -1, 0.125, 0.75}[rng.Intn(9)]
}

func newSearchColl(o *Opts, rng *rand.Rand, idx int, n int) *searchColl {
	path := filepath.Join(o.Scratch, fmt.Sprintf("q%d.dat", idx))
	os.Remove(path)
	sc := &searchColl{path: path, docs: map[uint64]*refDoc{}, dim: 1 + rng.Intn(6), q: quants[rng.Intn(5)], m: rng.Intn(2)}
	c, err := syzgydb.NewCollection(syzgydb.CollectionOptions{Name: path, DistanceMethod: sc.m, DimensionCount: sc.dim, Quantization: sc.q, FileMode: syzgydb.CreateAndOverwrite})
	if err != nil {
		fatal("NewCollection: %v", err)
	}
	sc.c = c
	for i := 0; i < n; i++ {
		sc.add(rng, genID(rng, n*2+1))
	}
	// history: overwrites, updates, deletes
	for i := 0; i < n/3; i++ {
		ids := sc.ids()
		if len(ids) == 0 {
			break
		}
		id := ids[rng.Intn(len(ids))]
		switch rng.Intn(3) {
		case 0:
			sc.add(rng, id)
		case 1:
			md := []byte(fmt.Sprintf(`{"v":%d,"tag":"u%d"}`, rng.Intn(5), rng.Intn(3)))
			if rng.Intn(6) == 0 {
				md = nil
			}
			sc.c.UpdateDocument(id, md)
			sc.docs[id].meta = md
		case 2:
			sc.c.VerifRemoveDocument(id)
			delete(sc.docs, id)
		}
	}
	return sc
}

func (sc *searchColl) add(rng *rand.Rand, id uint64) {
	v := make([]float64, sc.dim)
	for i := range v {
		if rng.Intn(3) == 0 {
			v[i] = gridVal(rng)
		} else {
			v[i] = rng.Float64()*2 - 1
		}
	}
	md := []byte(fmt.Sprintf(`{"v":%d,"tag":"t%d"}`, rng.Intn(5), rng.Intn(3)))
	switch rng.Intn(16) {
	case 0, 1:
		md = nil // a document stored without metadata: every filter still has to be asked about it
	case 2:
		md = []byte("not json")
	case 3:
		md = []byte(`[1,2]`)
	}
	sc.c.AddDocument(id, v, md)
	sc.docs[id] = &refDoc{id: id, meta: md}
}

func (sc *searchColl) ids() []uint64 {
	ids := make([]uint64, 0, len(sc.docs))
	for id := range sc.docs {
		ids = append(ids, id)
	}
	sort.Slice(ids, func(i, j int) bool { return ids[i] < ids[j] })
	return ids
}

func (sc *searchColl) close() {
	sc.c.Close()
	os.Remove(sc.path)
}

type namedFilter struct {
	name string
	fn   syzgydb.FilterFn
}

func genFilter(rng *rand.Rand) namedFilter {
	switch rng.Intn(5) {
	case 0:
		return namedFilter{"none", nil}
	case 1:
		k := uint64(2 + rng.Intn(3))
		return namedFilter{fmt.Sprintf("id%%%d!=0", k), func(id uint64, md []byte) bool { return id%k != 0 }}
	case 2:
		return namedFilter{"reject-all", func(id uint64, md []byte) bool { return false }}
	case 3:
		text := fmt.Sprintf("v >= %d", rng.Intn(5))
		f, err := syzgydb.BuildFilter(text)
		if err != nil {
			fatal("BuildFilter(%q): %v", text, err)
		}
		return namedFilter{text, f}
	default:
		text := fmt.Sprintf("tag == 't%d' OR v < %d", rng.Intn(3), rng.Intn(4))
		f, err := syzgydb.BuildFilter(text)
		if err != nil {
			fatal("BuildFilter(%q): %v", text, err)
		}
		return namedFilter{text, f}
	}
}

// candidates in ascending id order: id, bits of the true distance (on the stored vector), accept
func (sc *searchColl) cands(query []float64, f namedFilter) (string, map[uint64]float64, map[uint64]bool, bool) {
	var parts []string
	dist := map[uint64]float64{}
	acc := map[uint64]bool{}
	nan := false
	for _, id := range sc.ids() {
		d, err := sc.c.GetDocument(id)
		if err != nil {
			fatal("GetDocument(%d): %v", id, err)
		}
		x := sc.c.VerifDistance(query, d.Vector)
		if math.IsNaN(x) || x < 0 {
			nan = true
		}
		a := f.fn == nil || f.fn(id, d.Metadata)
		dist[id] = x
		acc[id] = a
		ab := "0"
		if a {
			ab = "1"
		}
		parts = append(parts, fmt.Sprintf("%d:%d:%s", id, math.Float64bits(x), ab))
	}
	if len(parts) == 0 {
		return "-", dist, acc, nan
	}
	return strings.Join(parts, ","), dist, acc, nan
}

func distBits(res string) []string {
	f := strings.Fields(res)
	if len(f) < 2 || f[1] == "-" {
		return nil
	}
	var out []string
	for _, e := range strings.Split(f[1], ",") {
		out = append(out, strings.Split(e, ":")[1])
	}
	return out
}

func idsOf(res string) []string {
	f := strings.Fields(res)
	if len(f) < 2 || f[1] == "-" {
		return nil
	}
	var out []string
	for _, e := range strings.Split(f[1], ",") {
		out = append(out, strings.Split(e, ":")[0])
	}
	return out
}

// validity of one real result list (the parts of C03/C04 that do not depend on tie-breaking)
func (sc *searchColl) checkResults(res *Result, prop, mode string, rs []syzgydb.SearchResult, dist map[uint64]float64, acc map[uint64]bool, replay any) {
	seen := map[uint64]bool{}
	prev := math.Inf(-1)
	for _, r := range rs {
		rd, live := sc.docs[r.ID]
		switch {
		case !live:
			res.Violate("impl-failure", prop+"/dead-document-returned", fmt.Sprintf("%s search returned id %d which is not live", mode, r.ID), replay)
		case !acc[r.ID]:
			res.Violate("impl-failure", prop+"/filtered-document-returned", fmt.Sprintf("%s search returned id %d which the filter rejects", mode, r.ID), replay)
		case math.Float64bits(r.Distance) != math.Float64bits(dist[r.ID]):
			res.Violate("impl-failure", prop+"/wrong-distance", fmt.Sprintf("%s search reports distance %v for id %d, true distance %v", mode, r.Distance, r.ID, dist[r.ID]), replay)
		case !bytes.Equal(r.Metadata, rd.meta):
			res.Violate("impl-failure", prop+"/stale-metadata", fmt.Sprintf("%s search returned stale metadata for id %d", mode, r.ID), replay)
		}
		if seen[r.ID] {
			res.Violate("impl-failure", prop+"/duplicate-result", fmt.Sprintf("%s search returned id %d twice", mode, r.ID), replay)
		}
		seen[r.ID] = true
		if r.Distance < prev {
			res.Violate("impl-failure", prop+"/not-sorted", fmt.Sprintf("%s search results are not in non-decreasing distance order", mode), replay)
		}
		prev = r.Distance
	}
}

func searchC03(o *Opts) {
	res := NewResult("C03", "search", o.Seed, o.Tier)
	res.Rule = "random collections (history of inserts, overwrites, updates, removals; duplicates, zero vectors, all quantizations, both metrics) x queries (stored vectors, zero, random) x K in {1,2,n-1,n,n+1,10n} / radii at, just below and just above actual distances x filters; " +
		"implementation Search(Precision exact) vs the Lean scan on the true distances; distinct = distinct (collection, query, K|radius, filter)"
	ncoll, nq := 150, 12
	if o.Tier == "thorough" {
		ncoll, nq = 1500, 20
	}
	if o.Scenarios > 0 {
		ncoll = o.Scenarios
	}
	rng := rand.New(rand.NewSource(o.Seed))
	drv := StartDriver()
	defer drv.Close()
	for ci := 0; ci < ncoll; ci++ {
		n := []int{0, 1, 2, 5, 12, 40, 120}[rng.Intn(7)]
		if o.Tier == "thorough" && rng.Intn(20) == 0 {
			n = 1500
		}
		if ci%12 == 5 {
			// well beyond what the approximate index examines before it gives up (200 candidates without
			// improvement): here "exact" and the default precision really differ
			n = 450 + rng.Intn(200)
		}
		sc := newSearchColl(o, rng, ci, n)
		ids := sc.ids()
		for qi := 0; qi < nq; qi++ {
			query := make([]float64, sc.dim)
			switch rng.Intn(4) {
			case 0:
				if len(ids) > 0 {
					d, _ := sc.c.GetDocument(ids[rng.Intn(len(ids))])
					copy(query, d.Vector)
				}
			case 1: // zero vector
			default:
				for i := range query {
					query[i] = rng.Float64()*2 - 1
				}
			}
			f := genFilter(rng)
			cs, dist, acc, nan := sc.cands(query, f)
			if nan {
				res.Hit("skipped:nan-distance")
				continue
			}
			m := 0
			for _, a := range acc {
				if a {
					m++
				}
			}
			if rng.Intn(2) == 0 {
				K := []int{1, 2, len(ids) - 1, len(ids), len(ids) + 1, 10*len(ids) + 3}[rng.Intn(6)]
				if K < 1 {
					K = 1
				}
				res.Evaluations++
				res.DistinctCase(fmt.Sprintf("%d/%d/k%d/%s", ci, qi, K, f.name))
				real := sc.c.Search(syzgydb.SearchArgs{Vector: query, K: K, Filter: f.fn, Precision: "exact"})
				model := drv.Send(fmt.Sprintf("knn %d %s", K, cs))
				replay := map[string]any{"mode": "knn", "K": K, "query": query, "filter": f.name, "cands": cs, "model": model, "dim": sc.dim, "quant": sc.q, "metric": sc.m}
				var rb []string
				for _, r := range real.Results {
					rb = append(rb, fmt.Sprint(math.Float64bits(r.Distance)))
				}
				if strings.Join(rb, ",") != strings.Join(distBits(model), ",") {
					res.Violate("tie-broken", "tie/search/knn-distances", fmt.Sprintf("distance multiset differs: impl=%v model=%v", rb, distBits(model)), replay)
				} else {
					res.TracesValidated++
				}
				sc.checkResults(res, "C03", "exact K-nearest", real.Results, dist, acc, replay)
				want := K
				if m < K {
					want = m
				}
				if len(real.Results) != want {
					res.Violate("impl-failure", "C03/wrong-count", fmt.Sprintf("exact K=%d search over %d accepted documents returned %d results", K, m, len(real.Results)), replay)
				}
				// every unreported accepted document is at least as far as the last reported one
				if len(real.Results) > 0 {
					last := real.Results[len(real.Results)-1].Distance
					rep := map[uint64]bool{}
					for _, r := range real.Results {
						rep[r.ID] = true
					}
					for id, a := range acc {
						if a && !rep[id] && dist[id] < last {
							res.Violate("impl-failure", "C03/nearer-document-missed", fmt.Sprintf("exact K=%d search missed id %d at distance %v < reported %v", K, id, dist[id], last), replay)
						}
					}
				}
				if len(ids) > 0 && real.PercentSearched != 100 {
					res.Violate("impl-failure", "C03/percent-searched", fmt.Sprintf("PercentSearched=%v for an exact search on %d documents", real.PercentSearched, len(ids)), replay)
				}
				res.Hit("knn")
			} else {
				// radius at / just below / just above an actual distance
				R := rng.Float64() * 2
				if len(ids) > 0 && rng.Intn(4) != 0 {
					base := dist[ids[rng.Intn(len(ids))]]
					switch rng.Intn(3) {
					case 0:
						R = base
					case 1:
						R = math.Nextafter(base, math.Inf(1))
					case 2:
						R = math.Nextafter(base, math.Inf(-1))
					}
				}
				if !(R > 0) {
					R = math.SmallestNonzeroFloat64
				}
				res.Evaluations++
				res.DistinctCase(fmt.Sprintf("%d/%d/r%v/%s", ci, qi, R, f.name))
				real := sc.c.Search(syzgydb.SearchArgs{Vector: query, Radius: R, Filter: f.fn, Precision: "exact"})
				model := drv.Send(fmt.Sprintf("radius %d %s", math.Float64bits(R), cs))
				replay := map[string]any{"mode": "radius", "R": R, "query": query, "filter": f.name, "cands": cs, "model": model, "dim": sc.dim, "quant": sc.q, "metric": sc.m}
				var rids, mids []string
				for _, r := range real.Results {
					rids = append(rids, fmt.Sprint(r.ID))
				}
				mids = idsOf(model)
				sort.Strings(rids)
				sort.Strings(mids)
				if strings.Join(rids, ",") != strings.Join(mids, ",") {
					res.Violate("tie-broken", "tie/search/radius-set", fmt.Sprintf("result set differs: impl=%v model=%v", rids, mids), replay)
				} else {
					res.TracesValidated++
				}
				sc.checkResults(res, "C03", "exact radius", real.Results, dist, acc, replay)
				got := map[uint64]bool{}
				for _, r := range real.Results {
					got[r.ID] = true
				}
				for id, a := range acc {
					in := a && dist[id] <= R
					if in != got[id] {
						res.Violate("impl-failure", "C03/radius-set-wrong", fmt.Sprintf("radius %v: id %d (distance %v, accepted %v) returned=%v", R, id, dist[id], a, got[id]), replay)
					}
				}
				res.Hit("radius")
			}
		}
		if ci < 2 {
			res.Sample(map[string]any{"collection": ci, "docs": len(ids), "dim": sc.dim, "quant": sc.q, "metric": sc.m})
		}
		sc.close()
	}
	res.Write(o.Out)
}

func searchC16(o *Opts) {
	res := NewResult("C16", "listing", o.Seed, o.Tier)
	res.Rule = "random collections and filters; all (offset, limit) in [0, n+2]^2 for n <= 12, sampled above (incl. offsets beyond the end, limits larger than the collection, negative values); " +
		"implementation listing vs the Lean listing loop and vs the slice [offset, offset+limit) of the full listing; then, on the same open collection, three rounds of removals, additions of new ids (count-preserving among them) and a metadata update, each followed by a full listing and a page; distinct = distinct (collection, filter, offset, limit)"
	ncoll := 120
	if o.Tier == "thorough" {
		ncoll = 1200
	}
	if o.Scenarios > 0 {
		ncoll = o.Scenarios
	}
	rng := rand.New(rand.NewSource(o.Seed))
	drv := StartDriver()
	defer drv.Close()
	for ci := 0; ci < ncoll; ci++ {
		n := rng.Intn(13)
		if rng.Intn(8) == 0 {
			n = 30 + rng.Intn(200)
		}
		sc := newSearchColl(o, rng, ci, n)
		ids := sc.ids()
		f := genFilter(rng)
		// listing order is the implementation's: sort.Strings on decimal ids
		sorted := make([]string, len(ids))
		for i, id := range ids {
			sorted[i] = fmt.Sprint(id)
		}
		sort.Strings(sorted)
		var items []string
		var all []string
		for _, s := range sorted {
			var id uint64
			fmt.Sscan(s, &id)
			d, _ := sc.c.GetDocument(id)
			a := f.fn == nil || f.fn(id, d.Metadata)
			ab := "0"
			if a {
				ab = "1"
				all = append(all, s)
			}
			items = append(items, s+":"+ab)
		}
		its := "-"
		if len(items) > 0 {
			its = strings.Join(items, ",")
		}
		full := sc.c.Search(syzgydb.SearchArgs{Filter: f.fn})
		var fullIDs []string
		for _, r := range full.Results {
			fullIDs = append(fullIDs, fmt.Sprint(r.ID))
		}
		// direct oracles: the property fixes no particular order, only that there is one. The full listing
		// holds every accepted live id exactly once, and asking again gives the same order. (That the
		// order is sort.Strings on decimal ids is part of the model tie below, not of the property.)
		sf, sa := append([]string{}, fullIDs...), append([]string{}, all...)
		sort.Strings(sf)
		sort.Strings(sa)
		if strings.Join(sf, ",") != strings.Join(sa, ",") {
			res.Violate("impl-failure", "C16/full-listing-wrong", fmt.Sprintf("full listing %v, accepted live ids %v", fullIDs, all), map[string]any{"items": its, "filter": f.name})
		}
		for rep := 0; rep < 2; rep++ {
			again := sc.c.Search(syzgydb.SearchArgs{Filter: f.fn})
			var ag []string
			for _, r := range again.Results {
				ag = append(ag, fmt.Sprint(r.ID))
			}
			if strings.Join(ag, ",") != strings.Join(fullIDs, ",") {
				res.Violate("impl-failure", "C16/listing-order-not-fixed", fmt.Sprintf("two full listings of the same state: %v then %v", fullIDs, ag), map[string]any{"items": its, "filter": f.name})
				break
			}
		}
		if strings.Join(fullIDs, ",") != strings.Join(all, ",") {
			res.Violate("tie-broken", "tie/listing-order", fmt.Sprintf("full listing %v, model order (sort.Strings on decimal ids) %v", fullIDs, all), map[string]any{"items": its, "filter": f.name})
		}
		var pairs [][2]int
		if n <= 12 {
			for off := 0; off <= len(ids)+2; off++ {
				for lim := 0; lim <= len(ids)+2; lim++ {
					pairs = append(pairs, [2]int{off, lim})
				}
			}
			pairs = append(pairs, [2]int{-1, 2}, [2]int{1, -3}, [2]int{0, math.MaxInt64}, [2]int{2, math.MaxInt64}, [2]int{1, 1 << 40}, [2]int{math.MaxInt64, 1})
		} else {
			for k := 0; k < 60; k++ {
				pairs = append(pairs, [2]int{rng.Intn(len(ids) + 5), rng.Intn(len(ids) + 5)})
			}
		}
		for _, p := range pairs {
			off, lim := p[0], p[1]
			res.Evaluations++
			res.DistinctCase(fmt.Sprintf("%d/%s/%d/%d", ci, f.name, off, lim))
			real := sc.c.Search(syzgydb.SearchArgs{Filter: f.fn, Offset: off, Limit: lim})
			var got []string
			for _, r := range real.Results {
				got = append(got, fmt.Sprint(r.ID))
				if rd := sc.docs[r.ID]; rd == nil || !bytes.Equal(rd.meta, r.Metadata) {
					res.Violate("impl-failure", "C16/stale-metadata", fmt.Sprintf("listing entry %d does not carry the current metadata", r.ID), map[string]any{"items": its, "off": off, "lim": lim})
				}
			}
			mo, ml := off, lim
			if mo < 0 {
				mo = 0
			}
			if ml < 0 {
				ml = 0
			}
			model := drv.Send(fmt.Sprintf("list %d %d %s", mo, ml, its))
			mf := strings.Fields(model)
			ms := ""
			if len(mf) > 1 && mf[1] != "-" {
				ms = mf[1]
			}
			replay := map[string]any{"items": its, "filter": f.name, "off": off, "lim": lim, "impl": got, "model": model}
			if strings.Join(got, ",") != ms {
				res.Violate("tie-broken", "tie/listing", fmt.Sprintf("page (%d,%d): impl=%v model=%s", off, lim, got, ms), replay)
			} else {
				res.TracesValidated++
			}
			// direct oracle: the slice of the full listing
			lo := mo
			if lo > len(fullIDs) {
				lo = len(fullIDs)
			}
			hi := len(fullIDs)
			if ml > 0 && ml < hi-lo {
				hi = lo + ml
			}
			if strings.Join(got, ",") != strings.Join(fullIDs[lo:hi], ",") {
				res.Violate("impl-failure", "C16/page-not-slice", fmt.Sprintf("page (offset %d, limit %d) = %v, slice of the full listing %v = %v", off, lim, got, fullIDs, fullIDs[lo:hi]), replay)
			}
		}
		// the same open collection after later operations: a listing has been served, now the set of live ids changes
		// (also with the number of documents unchanged: k removed, k new ones added), metadata changes, and the listing is
		// asked again — every accepted live id once, current metadata, pages still slices of the full listing
		for round := 0; round < 3; round++ {
			k := 1 + rng.Intn(3)
			live := sc.ids()
			var what []string
			for j := 0; j < k && len(live) > 0; j++ {
				x := rng.Intn(len(live))
				sc.c.VerifRemoveDocument(live[x])
				delete(sc.docs, live[x])
				what = append(what, fmt.Sprintf("remove %d", live[x]))
				live = append(live[:x], live[x+1:]...)
			}
			for j := 0; j < k; j++ {
				id := genID(rng, n*2+40)
				for tries := 0; sc.docs[id] != nil && tries < 50; tries++ {
					id = genID(rng, n*2+40+tries)
				}
				if sc.docs[id] != nil {
					continue
				}
				sc.add(rng, id)
				what = append(what, fmt.Sprintf("add %d", id))
			}
			if live = sc.ids(); len(live) > 0 && rng.Intn(2) == 0 {
				id := live[rng.Intn(len(live))]
				md := []byte(fmt.Sprintf(`{"v":%d,"tag":"w%d"}`, rng.Intn(5), rng.Intn(3)))
				sc.c.UpdateDocument(id, md)
				sc.docs[id].meta = md
				what = append(what, fmt.Sprintf("update %d", id))
			}
			var want []string
			for _, id := range sc.ids() {
				if f.fn == nil || f.fn(id, sc.docs[id].meta) {
					want = append(want, fmt.Sprint(id))
				}
			}
			sort.Strings(want)
			res.Evaluations++
			res.Hit("listing-after-mutation")
			replay := map[string]any{"items": its, "filter": f.name, "then": what}
			lst := sc.c.Search(syzgydb.SearchArgs{Filter: f.fn})
			var got []string
			for _, r := range lst.Results {
				got = append(got, fmt.Sprint(r.ID))
				if rd := sc.docs[r.ID]; rd == nil || !bytes.Equal(rd.meta, r.Metadata) {
					res.Violate("impl-failure", "C16/stale-metadata", fmt.Sprintf("after %v the listing entry %d does not carry the current metadata", what, r.ID), replay)
				}
			}
			gs := append([]string{}, got...)
			sort.Strings(gs)
			if strings.Join(gs, ",") != strings.Join(want, ",") {
				res.Violate("impl-failure", "C16/full-listing-wrong", fmt.Sprintf("after a listing had been served and then %v: full listing %v, accepted live ids %v", what, got, want), replay)
			} else {
				res.TracesValidated++
			}
			if len(got) > 1 {
				off, lim := rng.Intn(len(got)), 1+rng.Intn(len(got))
				hi := off + lim
				if hi > len(got) {
					hi = len(got)
				}
				var page []string
				for _, r := range sc.c.Search(syzgydb.SearchArgs{Filter: f.fn, Offset: off, Limit: lim}).Results {
					page = append(page, fmt.Sprint(r.ID))
				}
				if strings.Join(page, ",") != strings.Join(got[off:hi], ",") {
					res.Violate("impl-failure", "C16/page-not-slice", fmt.Sprintf("after %v: page (offset %d, limit %d) = %v, slice of the full listing %v = %v", what, off, lim, page, got, got[off:hi]), replay)
				}
			}
		}
		if ci < 2 {
			res.Sample(map[string]any{"collection": ci, "items": its, "filter": f.name})
		}
		sc.close()
	}
	res.Write(o.Out)
}

func init() {
	subcommands["search-C03"] = searchC03
	subcommands["search-C16"] = searchC16
}
