package main

import (
	"bytes"
	"fmt"
	"os"
	"path/filepath"
	"strings"

	"github.com/smhanov/syzgydb"
)

// C07: crash images. After every mutating operation the file as it was after each storage step
// (captured through the verif hook) is recovered by the real OpenFile/NewCollection on a scratch
// copy and by the model; the recovered state must be old-or-new for the affected document, intact
// for the others, well-formed, and must stay so under a continuation + reopen.
type c07ctx struct {
	o    *Opts
	res  *Result
	drv2 *Driver
	n    int
}

func newC07(o *Opts, res *Result) *c07ctx { return &c07ctx{o: o, res: res, drv2: StartDriver()} }
func (c *c07ctx) finish()                 { c.drv2.Close() }

func (s *storeRun) captureStart() {
	if s.c07 == nil {
		return
	}
	s.images, s.imgTags = nil, nil
	syzgydb.VerifSetPointHook(func(name string, db *syzgydb.SpanFile) {
		if db != nil {
			s.images = append(s.images, db.VerifFileBytes())
			s.imgTags = append(s.imgTags, name)
		}
	})
}

func (s *storeRun) captureEnd() {
	if s.c07 == nil {
		return
	}
	syzgydb.VerifSetPointHook(nil)
}

func docEq(d *syzgydb.Document, sd *specDoc, r *RealColl) bool {
	return d != nil && sd != nil && bytes.Equal(d.Metadata, sd.meta) && eqU(r.Codes(d.Vector), sd.codes)
}

// afterMutation runs the crash-image checks for the operation just executed. prev is the affected
// document's state before the operation (nil = not live); s.spec already holds the new state.
func (s *storeRun) afterMutation(op Op, prev *specDoc) {
	c := s.c07
	if c == nil || s.dead {
		return
	}
	// tie: the model's crash images are the implementation's
	// (once model and implementation have diverged the images go through the direct oracles alone: old-or-new,
	// others intact, well-formed chain, continuation — that is the search for a concrete failing input)
	useModel := !s.modelDead
	if useModel {
		m := s.drv.Send("images")
		var parts []string
		for i, img := range s.images {
			parts = append(parts, fmt.Sprintf("%s:%d:%d", s.imgTags[i], len(img), fnv1a(img)))
		}
		want := "img -"
		if len(parts) > 0 {
			want = "img " + strings.Join(parts, ";")
		}
		if m != want {
			s.tie("crash images of "+op.K, m, want)
			useModel = false
		}
	}
	now := s.spec[op.ID] // nil when removed
	for k, img := range s.images {
		c.n++
		s.res.Evaluations++
		s.res.Hit("crash-after:" + s.imgTags[k])
		s.res.DistinctCase(fmt.Sprintf("%d/%d/%d", s.scen, len(s.ops), k))
		where := fmt.Sprintf("crash after step %d (%s) of %s %d", k+1, s.imgTags[k], op.K, op.ID)
		path := filepath.Join(c.o.Scratch, fmt.Sprintf("crash-%d.dat", s.scen))
		if err := os.WriteFile(path, img, 0644); err != nil {
			fatal("write crash image: %v", err)
		}
		rc := &RealColl{Path: path}
		r := rc.New(1, 0, 0, 0)
		modelOK := useModel
		if modelOK {
			m1 := c.drv2.Send("disk " + hexW(img))
			m2 := c.drv2.SendNew(1, 0, 0, 0, path)
			if m1 != "ok" || strings.Fields(m2)[0] != r {
				s.tie("recovery ("+where+")", m2, r)
				modelOK, useModel = false, false
			}
		}
		if r != "ok" {
			s.fail("C07", "recovery-failed", where+": reopening the file failed ("+r+")")
			os.Remove(path)
			continue
		}
		if modelOK {
			if ms, rs := c.drv2.Send("st"), rc.St(); ms != rs {
				// the tie is broken here; keep going on the implementation alone to look for a failing input
				s.tie("recovered state ("+where+")", ms, rs)
				modelOK = false
			} else {
				s.res.TracesValidated++
			}
		}
		// others intact, affected old-or-new
		_, ids := rc.IDs()
		have := map[uint64]bool{}
		for _, id := range ids {
			have[id] = true
		}
		for id, sd := range s.spec {
			if id == op.ID {
				continue
			}
			_, d := rc.Get(id)
			if !docEq(d, sd, rc) {
				s.fail("C07", "other-document-damaged", fmt.Sprintf("%s: document %d is not intact after recovery", where, id))
			}
		}
		for id := range have {
			if _, ok := s.spec[id]; !ok && id != op.ID {
				s.fail("C07", "unexpected-document", fmt.Sprintf("%s: recovered collection lists id %d which was not live", where, id))
			}
		}
		_, d := rc.Get(op.ID)
		isOld := (prev == nil && d == nil) || docEq(d, prev, rc)
		isNew := (now == nil && d == nil) || docEq(d, now, rc)
		if !isOld && !isNew {
			s.fail("C07", "neither-old-nor-new", fmt.Sprintf("%s: the affected document is in neither its pre- nor its post-operation state", where))
		}
		if isNew && !isOld {
			s.res.Hit("recovered:new")
		} else {
			s.res.Hit("recovered:old")
		}
		sf := rc.C.VerifSpanFile()
		if err := checkWellFormed(sf.VerifFileBytes(), sf.VerifIndex(), sf.VerifFreeMap()); err != nil {
			sig := "recovered-file-malformed"
			if strings.Contains(err.Error(), "active twice") {
				sig = "zombie-span-after-recovery"
			} else if strings.Contains(err.Error(), "bad magic 00000000") {
				sig = "zero-tail-after-recovery"
			}
			s.fail("C07", sig, fmt.Sprintf("%s: the recovered file is not a well-formed chain: %v", where, err))
		}
		// continuation: (1) write a record larger than any tail, (2) remove the affected document,
		// then close and reopen: nothing older may come back, nothing newer may be lost.
		bigID := uint64(1<<40) + uint64(c.n)
		vec := make([]float64, rc.Opt.DimensionCount)
		bigMeta := genMeta(int64(c.n), 5000)
		cm, cr := "", rc.Add(bigID, vec, bigMeta)
		if modelOK {
			if cm = c.drv2.Send(fmt.Sprintf("add %d %s %s", bigID, codesStr(rc.Codes(vec)), hexW(bigMeta))); cm != cr {
				s.tie("continuation add ("+where+")", cm, cr)
				modelOK = false
			}
		}
		removed := false
		if d != nil {
			cr = rc.Del(op.ID)
			if modelOK {
				if cm = c.drv2.Send(fmt.Sprintf("del %d", op.ID)); cm != cr {
					s.tie("continuation remove ("+where+")", cm, cr)
					modelOK = false
				}
			}
			removed = cr == "ok"
		}
		rc.Close()
		r = rc.New(1, 0, 0, 0)
		m2 := ""
		if modelOK {
			c.drv2.Send("close")
			m2 = c.drv2.SendNew(1, 0, 0, 0, path)
		}
		if modelOK && strings.Fields(m2)[0] != r {
			s.tie("second reopen ("+where+")", m2, r)
		} else if r == "ok" {
			if modelOK {
				if ms, rs := c.drv2.Send("st"), rc.St(); ms != rs {
					s.tie("state after continuation and reopen ("+where+")", ms, rs)
				}
			}
			if _, d2 := rc.Get(bigID); d2 == nil || !bytes.Equal(d2.Metadata, bigMeta) {
				s.fail("C07", "record-lost-after-recovery", fmt.Sprintf("%s: a document written after recovery is gone after the next reopen", where))
			}
			if removed {
				if _, d2 := rc.Get(op.ID); d2 != nil {
					s.fail("C07", "old-version-resurrected", fmt.Sprintf("%s: the affected document was removed after recovery, yet the next reopen brings a version of it back", where))
				}
			}
			for id, sd := range s.spec {
				if id == op.ID {
					continue
				}
				if _, d2 := rc.Get(id); !docEq(d2, sd, rc) {
					s.fail("C07", "other-document-damaged", fmt.Sprintf("%s: document %d is not intact after continuation and reopen", where, id))
				}
			}
			rc.Close()
		} else {
			s.fail("C07", "recovery-failed", where+": second reopen failed")
		}
		os.Remove(path)
	}
}
