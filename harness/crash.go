package main

import "github.com/smhanov/syzgydb"

// crash-image capture (C07); filled in by c07.go
type c07ctx struct {
	o   *Opts
	res *Result
}

func newC07(o *Opts, res *Result) *c07ctx { return &c07ctx{o: o, res: res} }
func (c *c07ctx) finish()               {}

func (s *storeRun) captureStart() {
	if s.c07 == nil {
		return
	}
	s.images, s.imgTags = nil, nil
	syzgydb.VerifSetPointHook(func(name string, db *syzgydb.SpanFile) {
		if db != nil {
			s.images = append(s.images, db.VerifFileBytes())
			s.imgTags = append(s.imgTags, name)
		}
	})
}
func (s *storeRun) captureEnd() {
	if s.c07 == nil {
		return
	}
	syzgydb.VerifSetPointHook(nil)
}
func (s *storeRun) afterMutation(op Op, prev *specDoc) {}
