package main

import (
	"encoding/hex"
	"encoding/json"
	"fmt"
	"math"
	"math/rand"
	"regexp"
	"sort"
	"strconv"
	"strings"
	"time"

	"github.com/smhanov/syzgydb"
	"github.com/smhanov/syzgydb/query"
)

// ---------- expression language (mirror of lean/Syzgy/Spec/Filter.lean) ----------

type QPath struct {
	Kind string // F D I L
	P    *QPath
	Name string // field name or index literal
}

type QLit struct {
	Kind string // N S T U Z
	S    string
}

type QExpr struct {
	Kind  string // C O IN NI E X A R !
	Op    string
	Path  *QPath
	Lit   *QLit
	Str   string
	Items []QLit
	A, B  *QExpr
}

func hx(s string) string { return hex.EncodeToString([]byte(s)) }

func (p *QPath) enc(out *[]string) {
	switch p.Kind {
	case "F":
		*out = append(*out, "F"+hx(p.Name))
	case "D":
		*out = append(*out, "D")
		p.P.enc(out)
		*out = append(*out, hx(p.Name))
	case "I":
		*out = append(*out, "I")
		p.P.enc(out)
		*out = append(*out, hx(p.Name))
	case "L":
		*out = append(*out, "L")
		p.P.enc(out)
	}
}

func (l QLit) enc() string {
	switch l.Kind {
	case "N", "S":
		return l.Kind + hx(l.S)
	}
	return l.Kind
}

func (e *QExpr) enc(out *[]string) {
	switch e.Kind {
	case "C":
		*out = append(*out, "C", e.Op)
		e.Path.enc(out)
		*out = append(*out, e.Lit.enc())
	case "O":
		*out = append(*out, "O", e.Op)
		e.Path.enc(out)
		*out = append(*out, hx(e.Str))
	case "IN", "NI":
		*out = append(*out, e.Kind)
		e.Path.enc(out)
		*out = append(*out, strconv.Itoa(len(e.Items)))
		for _, l := range e.Items {
			*out = append(*out, l.enc())
		}
	case "E", "X":
		*out = append(*out, e.Kind)
		e.Path.enc(out)
	case "A", "R":
		*out = append(*out, e.Kind)
		e.A.enc(out)
		e.B.enc(out)
	case "!":
		*out = append(*out, "!")
		e.A.enc(out)
	}
}

func (e *QExpr) Enc() string {
	var out []string
	e.enc(&out)
	return strings.Join(out, ";")
}

// ---------- rendering to filter text ----------

type renderer struct{ rng *rand.Rand }

func (r *renderer) ws(must bool) string {
	opts := []string{" ", " ", " ", "  ", "\t", "\n", " \r\n "}
	if !must && r.rng.Intn(3) == 0 {
		return ""
	}
	return opts[r.rng.Intn(len(opts))]
}

func (r *renderer) path(p *QPath) string {
	switch p.Kind {
	case "F":
		return p.Name
	case "D":
		return r.path(p.P) + r.ws(false) + "." + r.ws(false) + p.Name
	case "I":
		return r.path(p.P) + "[" + r.ws(false) + p.Name + r.ws(false) + "]"
	default:
		return r.path(p.P) + ".length"
	}
}

func (r *renderer) lit(l QLit) string {
	switch l.Kind {
	case "N":
		return l.S
	case "S":
		q := "'"
		if strings.Contains(l.S, "'") || r.rng.Intn(2) == 0 {
			q = "\""
		}
		return q + r.strBody(l.S, q[0]) + q
	case "T":
		return "true"
	case "U":
		return "false"
	}
	return "null"
}

// strBody spells the characters of a string value between quotes q the way the lexer's readString reads
// them back: a backslash is always written `\\`, the closing quote character `"` as `\"` (a `'` cannot be
// written inside single quotes at all), and newline / tab / carriage return either raw or as `\n` `\t` `\r`.
func (r *renderer) strBody(s string, q byte) string {
	var b strings.Builder
	for i := 0; i < len(s); i++ {
		c := s[i]
		switch {
		case c == '\\':
			b.WriteString("\\\\")
		case c == '"' && (q == '"' || r.rng.Intn(2) == 0):
			b.WriteString("\\\"")
		case c == '\n' && r.rng.Intn(2) == 0:
			b.WriteString("\\n")
		case c == '\t' && r.rng.Intn(2) == 0:
			b.WriteString("\\t")
		case c == '\r' && r.rng.Intn(2) == 0:
			b.WriteString("\\r")
		default:
			b.WriteByte(c)
		}
	}
	return b.String()
}

var cmpText = map[string]string{"eq": "==", "ne": "!=", "lt": "<", "le": "<=", "gt": ">", "ge": ">="}
var strText = map[string]string{"contains": "CONTAINS", "startswith": "STARTS_WITH", "endswith": "ENDS_WITH", "matches": "MATCHES"}

// prec: 0 = OR level, 1 = AND level, 2 = operand of NOT / atom
func (r *renderer) expr(e *QExpr, prec int) string {
	var s string
	my := 2
	switch e.Kind {
	case "C":
		// symbolic operators need no surrounding space; keep it optional
		s = r.path(e.Path) + r.ws(false) + cmpText[e.Op] + r.ws(false) + r.lit(*e.Lit)
	case "O":
		s = r.path(e.Path) + r.ws(true) + strText[e.Op] + r.ws(true) + r.lit(QLit{Kind: "S", S: e.Str})
	case "IN", "NI":
		items := make([]string, len(e.Items))
		for i, l := range e.Items {
			items[i] = r.ws(false) + r.lit(l) + r.ws(false)
		}
		kw := "IN"
		if e.Kind == "NI" {
			kw = "NOT" + r.ws(true) + "IN"
		}
		s = r.path(e.Path) + r.ws(true) + kw + r.ws(false) + "[" + strings.Join(items, ",") + "]"
	case "E":
		s = r.path(e.Path) + r.ws(true) + "EXISTS"
	case "X":
		s = r.path(e.Path) + r.ws(true) + "DOES NOT EXIST"
	case "A":
		my = 1
		s = r.expr(e.A, 1) + r.ws(true) + "AND" + r.ws(true) + r.expr(e.B, 2)
	case "R":
		my = 0
		s = r.expr(e.A, 0) + r.ws(true) + "OR" + r.ws(true) + r.expr(e.B, 1)
	case "!":
		s = "NOT" + r.ws(false) + "(" + r.ws(false) + r.expr(e.A, 0) + r.ws(false) + ")"
	}
	// atoms are operands of parseComparison: inside AND/OR they need no parentheses
	if e.Kind != "A" && e.Kind != "R" {
		my = 2
		if prec == 2 && (e.Kind == "C" || e.Kind == "O" || e.Kind == "IN" || e.Kind == "NI" || e.Kind == "E" || e.Kind == "X") {
			my = 2
		}
	}
	if my < prec || r.rng.Intn(6) == 0 {
		s = "(" + r.ws(false) + s + r.ws(false) + ")"
	}
	return s
}

// ---------- documents ----------

var strPool = []string{"", "a", "abc", "abcdef", "hello world", "J", "Jason", "son", "x-1", "été", "a'b", "q\"r", "^a.*c$", "[", "b+", "C:\\tmp", "a\\.b", "a.b", "l1\nl2", "t\tx", "\\", "cr\rx"}
var numPool = []float64{0, 1, 2, 3, 10, 18, 21, 25, 99.5, 100, 1e3, 2.5e-2}
var numLits = []string{"0", "1", "2", "3", "10", "18", "21", "25", "99.5", "100", "1e3", "2.5E-2", "1000", "0.025", "3.0", "007"}

type schemaField struct {
	path *QPath
	typ  string // num str bool null arr-str arr-num obj arr-obj
}

func F(n string) *QPath           { return &QPath{Kind: "F", Name: n} }
func D(p *QPath, n string) *QPath { return &QPath{Kind: "D", P: p, Name: n} }
func I(p *QPath, i string) *QPath { return &QPath{Kind: "I", P: p, Name: i} }
func L(p *QPath) *QPath           { return &QPath{Kind: "L", P: p} }

var schema = []schemaField{
	{F("a"), "num"}, {F("b"), "num"}, {F("age"), "num"}, {F("s"), "str"}, {F("name"), "str"}, {F("flag"), "bool"}, {F("nul"), "null"},
	{F("opt1"), "num"}, {F("opt_2"), "str"}, {F("tags"), "arr-str"}, {F("nums"), "arr-num"}, {F("o"), "obj"},
	{D(F("o"), "x"), "num"}, {D(F("o"), "y"), "str"}, {D(F("o"), "z"), "obj"}, {D(D(F("o"), "z"), "w"), "num"},
	{D(F("o"), "missing"), "num"}, {F("absent"), "num"}, {D(F("absent"), "deep"), "str"},
	{I(F("tags"), "0"), "str"}, {I(F("tags"), "1"), "str"}, {I(F("nums"), "2"), "num"}, {L(F("tags")), "num"}, {L(F("nums")), "num"},
	{F("items"), "arr-obj"}, {D(I(F("items"), "0"), "price"), "num"}, {D(I(F("items"), "1"), "price"), "num"}, {L(F("items")), "num"},
	{I(F("tags"), "7"), "str"},
	// paths that step through a value of the wrong kind: never present (EXISTS false, DOES NOT EXIST true)
	{I(F("s"), "0"), "str"}, {I(F("o"), "0"), "num"}, {I(F("a"), "1"), "num"}, {D(F("tags"), "x"), "str"}, {D(F("s"), "x"), "num"}, {D(I(F("nums"), "0"), "x"), "num"},
}

func genDoc(rng *rand.Rand) map[string]any {
	d := map[string]any{}
	p := func() bool { return rng.Intn(10) < 8 }
	num := func() any { return numPool[rng.Intn(len(numPool))] }
	str := func() any { return strPool[rng.Intn(len(strPool))] }
	if p() {
		d["a"] = num()
	}
	if p() {
		d["b"] = num()
	}
	if p() {
		d["age"] = num()
	}
	if p() {
		d["s"] = str()
	}
	if p() {
		d["name"] = str()
	}
	if p() {
		d["flag"] = rng.Intn(2) == 0
	}
	if p() {
		d["nul"] = nil
	}
	if rng.Intn(2) == 0 {
		d["opt1"] = num()
	}
	if rng.Intn(2) == 0 {
		d["opt_2"] = str()
	}
	if p() {
		n := rng.Intn(4)
		a := make([]any, n)
		for i := range a {
			a[i] = str()
		}
		d["tags"] = a
	}
	if p() {
		n := rng.Intn(5)
		a := make([]any, n)
		for i := range a {
			a[i] = num()
		}
		d["nums"] = a
	}
	if p() {
		o := map[string]any{}
		if p() {
			o["x"] = num()
		}
		if p() {
			o["y"] = str()
		}
		if p() {
			z := map[string]any{}
			if p() {
				z["w"] = num()
			}
			o["z"] = z
		}
		d["o"] = o
	}
	if p() {
		n := rng.Intn(3)
		a := make([]any, n)
		for i := range a {
			it := map[string]any{}
			if p() {
				it["price"] = num()
			}
			a[i] = it
		}
		d["items"] = a
	}
	// occasionally a wrong type, to exercise the ill-typed side of the tie
	if rng.Intn(10) == 0 {
		d["a"] = "not a number"
	}
	if rng.Intn(15) == 0 {
		d["o"] = 3.0
	}
	return d
}

func genAtom(rng *rand.Rand) *QExpr {
	f := schema[rng.Intn(len(schema))]
	switch k := rng.Intn(100); {
	case k < 12:
		return &QExpr{Kind: "E", Path: f.path}
	case k < 24:
		return &QExpr{Kind: "X", Path: f.path}
	}
	typ := f.typ
	if rng.Intn(12) == 0 {
		typ = []string{"num", "str", "bool", "null"}[rng.Intn(4)]
	}
	numLit := func() QLit { return QLit{Kind: "N", S: numLits[rng.Intn(len(numLits))]} }
	strLit := func() QLit { return QLit{Kind: "S", S: strPool[rng.Intn(len(strPool))]} }
	switch typ {
	case "num":
		if rng.Intn(4) == 0 {
			n := 1 + rng.Intn(4)
			items := make([]QLit, n)
			for i := range items {
				items[i] = numLit()
				if rng.Intn(3) == 0 { // lists may mix numbers and strings: membership is decided element by element
					items[i] = strLit()
				}
			}
			return &QExpr{Kind: []string{"IN", "NI"}[rng.Intn(2)], Path: f.path, Items: items}
		}
		l := numLit()
		return &QExpr{Kind: "C", Op: []string{"eq", "ne", "lt", "le", "gt", "ge"}[rng.Intn(6)], Path: f.path, Lit: &l}
	case "str":
		switch rng.Intn(4) {
		case 0:
			n := 1 + rng.Intn(4)
			items := make([]QLit, n)
			for i := range items {
				items[i] = strLit()
				if rng.Intn(3) == 0 {
					items[i] = numLit()
				}
			}
			return &QExpr{Kind: []string{"IN", "NI"}[rng.Intn(2)], Path: f.path, Items: items}
		case 1:
			return &QExpr{Kind: "O", Op: []string{"contains", "startswith", "endswith", "matches"}[rng.Intn(4)], Path: f.path, Str: strPool[rng.Intn(len(strPool))]}
		}
		l := strLit()
		return &QExpr{Kind: "C", Op: []string{"eq", "ne", "lt", "le", "gt", "ge"}[rng.Intn(6)], Path: f.path, Lit: &l}
	case "bool":
		l := QLit{Kind: []string{"T", "U"}[rng.Intn(2)]}
		return &QExpr{Kind: "C", Op: []string{"eq", "ne"}[rng.Intn(2)], Path: f.path, Lit: &l}
	default:
		l := QLit{Kind: "Z"}
		return &QExpr{Kind: "C", Op: []string{"eq", "ne"}[rng.Intn(2)], Path: f.path, Lit: &l}
	}
}

func genExpr(rng *rand.Rand, depth int) *QExpr {
	if depth <= 0 || rng.Intn(3) == 0 {
		return genAtom(rng)
	}
	switch rng.Intn(5) {
	case 0, 1:
		return &QExpr{Kind: "A", A: genExpr(rng, depth-1), B: genExpr(rng, depth-1)}
	case 2, 3:
		return &QExpr{Kind: "R", A: genExpr(rng, depth-1), B: genExpr(rng, depth-1)}
	}
	return &QExpr{Kind: "!", A: genExpr(rng, depth-1)}
}

// ---------- wire encodings ----------

func encJ(v any, out *[]string) {
	switch x := v.(type) {
	case nil:
		*out = append(*out, "n")
	case bool:
		if x {
			*out = append(*out, "t")
		} else {
			*out = append(*out, "f")
		}
	case float64:
		*out = append(*out, fmt.Sprintf("d%016x", math.Float64bits(x)))
	case string:
		*out = append(*out, "s"+hx(x))
	case []any:
		*out = append(*out, "a"+strconv.Itoa(len(x)))
		for _, it := range x {
			encJ(it, out)
		}
	case map[string]any:
		keys := make([]string, 0, len(x))
		for k := range x {
			keys = append(keys, k)
		}
		sort.Strings(keys)
		*out = append(*out, "o"+strconv.Itoa(len(x)))
		for _, k := range keys {
			*out = append(*out, hx(k))
			encJ(x[k], out)
		}
	}
}

func encDocBytes(md []byte) (string, any) {
	var v any
	if err := json.Unmarshal(md, &v); err != nil {
		return "INVALID", nil
	}
	var out []string
	encJ(v, &out)
	return strings.Join(out, ";"), v
}

func collectStrings(v any, acc map[string]bool) {
	switch x := v.(type) {
	case string:
		acc[x] = true
	case []any:
		for _, it := range x {
			collectStrings(it, acc)
		}
	case map[string]any:
		for _, it := range x {
			collectStrings(it, acc)
		}
	}
}

// tables computed with the implementation's own lexer (number literals, string literals)
func tablesFor(text string, doc any) (numtab, rxtab string) {
	nums := map[string]bool{}
	pats := map[string]bool{}
	func() {
		defer func() { recover() }()
		lx := query.NewLexer(text)
		for i := 0; i < len(text)+2; i++ {
			t := lx.NextToken()
			if t.Type == query.TokenEOF {
				break
			}
			if t.Type == query.TokenNumber {
				nums[t.Literal] = true
			}
			if t.Type == query.TokenString {
				pats[t.Literal] = true
			}
		}
	}()
	var np []string
	for lit := range nums {
		f, err := strconv.ParseFloat(lit, 64)
		if err != nil {
			np = append(np, hexW([]byte(lit))+"=x")
		} else {
			np = append(np, fmt.Sprintf("%s=%016x", hexW([]byte(lit)), math.Float64bits(f)))
		}
	}
	sort.Strings(np)
	subj := map[string]bool{}
	collectStrings(doc, subj)
	// any string can stand on either side of MATCHES (`'abc' MATCHES name` takes the pattern from the
	// document): the oracle table holds every ordered pair of the strings in the text and the document
	for p := range pats {
		subj[p] = true
	}
	var rp []string
	if len(subj)*len(subj) <= 3600 {
		for p := range subj {
			re, err := regexp.Compile(p)
			for s := range subj {
				v := "x"
				if err == nil {
					if re.MatchString(s) {
						v = "t"
					} else {
						v = "f"
					}
				}
				rp = append(rp, hexW([]byte(p))+":"+hexW([]byte(s))+"="+v)
			}
		}
	}
	sort.Strings(rp)
	j := func(p []string) string {
		if len(p) == 0 {
			return "-"
		}
		return strings.Join(p, ",")
	}
	return j(np), j(rp)
}

// realFilter runs BuildFilter + the filter on the implementation.
func realFilter(text string, md []byte) string {
	done := make(chan string, 1)
	go func() {
		defer func() {
			if r := recover(); r != nil {
				done <- "panic"
			}
		}()
		fn, err := syzgydb.BuildFilter(text)
		if err != nil {
			done <- "builderr"
			return
		}
		// the built filter is applied twice: its answer depends on the text and the metadata only, so a
		// second application (warm caches, reused state) must neither panic nor answer differently
		r1 := fn(1, md)
		r2 := fn(1, md)
		if r1 != r2 {
			done <- "unstable"
		} else if r1 {
			done <- "true"
		} else {
			done <- "false"
		}
	}()
	select {
	case r := <-done:
		return r
	case <-time.After(20 * time.Second):
		return "hang"
	}
}

func modelFilter(drv *Driver, text string, md []byte) string {
	enc, doc := encDocBytes(md)
	nt, rt := tablesFor(text, doc)
	return drv.Send(fmt.Sprintf("filter %s %s %s %s", hexW([]byte(text)), nt, rt, enc))
}

func atomSig(e *QExpr) string {
	switch e.Kind {
	case "A", "R", "!":
		return "compound"
	}
	pk := e.Path.Kind
	if e.Path.Kind != "F" {
		pk = "nested"
	} else {
		pk = "top-level"
	}
	return e.Kind + "/" + pk
}

// shrink a failing expression to a sub-expression that still fails
func shrinkExpr(e *QExpr, fails func(*QExpr) bool) *QExpr {
	for {
		var subs []*QExpr
		switch e.Kind {
		case "A", "R":
			subs = []*QExpr{e.A, e.B}
		case "!":
			subs = []*QExpr{e.A}
		}
		found := false
		for _, s := range subs {
			if fails(s) {
				e = s
				found = true
				break
			}
		}
		if !found {
			return e
		}
	}
}

func queryC13(o *Opts) {
	res := NewResult("C13", "query", o.Seed, o.Tier)
	res.Rule = "expressions generated from the documented grammar (depth<=6 quick / 10 thorough; random whitespace, quote style, redundant parentheses) x JSON documents over a schema with optional fields; " +
		"three-way: BuildFilter on the implementation, the Lean lexer/parser/evaluator model on the same text, and the reference semantics `denote` on the expression tree; " +
		"non-trivial = well-typed pair; distinct = distinct (text, document)"
	n, depth := 20000, 6
	if o.Tier == "thorough" {
		n, depth = 300000, 10
	}
	if o.Scenarios > 0 {
		n = o.Scenarios
	}
	rng := rand.New(rand.NewSource(o.Seed))
	drv := StartDriver()
	defer drv.Close()
	rd := &renderer{rng: rng}
	wellTyped, trueCount := 0, 0
	for i := 0; i < n; i++ {
		e := genExpr(rng, 1+rng.Intn(depth))
		docv := genDoc(rng)
		md, _ := json.Marshal(docv)
		text := rd.expr(e, 0)
		res.Evaluations++
		real := realFilter(text, md)
		model := modelFilter(drv, text, md)
		enc, doc := encDocBytes(md)
		nt, rt := tablesFor(text, doc)
		spec := drv.Send(fmt.Sprintf("denote %s %s %s %s", e.Enc(), nt, rt, enc))
		res.Hit("real:" + real)
		countKinds(e, res)
		if i < 3 {
			res.Sample(map[string]any{"text": text, "doc": string(md), "impl": real, "model": model, "denote": spec})
		}
		replay := map[string]any{"text": text, "doc": string(md), "expr": e.Enc(), "impl": real, "model": model, "denote": spec}
		if model != real {
			res.Violate("tie-broken", "tie/query/filter", fmt.Sprintf("model=%s impl=%s for %q on %s", model, real, text, md), replay)
		} else {
			res.TracesValidated++
		}
		if spec == "illtyped" {
			res.Hit("spec:illtyped")
			continue
		}
		if strings.HasPrefix(spec, "bad-op") {
			res.Violate("tie-broken", "tie/query/denote-bad-op", "driver rejected "+e.Enc(), replay)
			continue
		}
		wellTyped++
		res.DistinctCase(text + "\x00" + string(md))
		want := strings.Fields(spec)[0]
		if want == "true" {
			trueCount++
		}
		if strings.Fields(spec)[1] != "ast="+want {
			res.Violate("tie-broken", "tie/query/eval-denote", "Lean eval(ast e) differs from denote e: "+spec, replay)
		}
		if real != want {
			// minimise: which sub-expression already disagrees?
			min := shrinkExpr(e, func(s *QExpr) bool {
				t := (&renderer{rng: rand.New(rand.NewSource(1))}).expr(s, 0)
				enc2, doc2 := encDocBytes(md)
				nt2, rt2 := tablesFor(t, doc2)
				sp := drv.Send(fmt.Sprintf("denote %s %s %s %s", s.Enc(), nt2, rt2, enc2))
				if sp == "illtyped" || strings.HasPrefix(sp, "bad-op") {
					return false
				}
				return realFilter(t, md) != strings.Fields(sp)[0]
			})
			mt := (&renderer{rng: rand.New(rand.NewSource(1))}).expr(min, 0)
			res.Violate("impl-failure", "C13/"+atomSig(min),
				fmt.Sprintf("filter %q on %s: implementation says %s, documented semantics says %s (minimal failing sub-expression: %q)", text, md, real, want, mt),
				map[string]any{"text": text, "doc": string(md), "minimal": mt, "impl": real, "expected": want})
		}
	}
	res.Histogram["well_typed_pairs"] = wellTyped
	res.Histogram["well_typed_true"] = trueCount
	res.Write(o.Out)
}

func countKinds(e *QExpr, res *Result) {
	res.Hit("node:" + e.Kind)
	if e.A != nil {
		countKinds(e.A, res)
	}
	if e.B != nil {
		countKinds(e.B, res)
	}
}

// ---------- C14: malformed stream ----------

var fragments = []string{"DOES", "DOES ", "DOES N", "DOES NOT", "DOES NOT ", "DOES NOT E", "DOES NOT EXIS", "DOES NOT EXIST", "DOES NOTX", "NOT", "NOT IN", "IN", "AND", "OR", "EXISTS",
	"(", ")", "[", "]", "[*]", "[*", ",", ".", ":", "==", "=", "!", "!=", "<", "<=", ">", ">=", "'", "\"", "'abc", "\"a\\", "\\", "0x", "0x1F", "1e", "1e+", "1.2.3", "12abc", "a.b", "a[", "a[0", "a[0]",
	"x ==", "x == null", "null", "true", "LENGTH(", "LENGTH(x)", "f(", "f(a,", "f()", ":p", ":", "\x00", "a\x00b", "\xff", "é", "CONTAINS", "MATCHES '['", "a.", "a..b", "ANY", "ALL(x)"}

func genMalformed(rng *rand.Rand, valid func() string) string {
	switch rng.Intn(8) {
	case 0: // prefix of a valid filter
		v := valid()
		return v[:rng.Intn(len(v)+1)]
	case 1: // delete a chunk
		v := valid()
		if len(v) < 2 {
			return v
		}
		a := rng.Intn(len(v))
		b := a + 1 + rng.Intn(min(6, len(v)-a))
		return v[:a] + v[b:]
	case 2: // random bytes
		n := rng.Intn(40)
		b := make([]byte, n)
		for i := range b {
			b[i] = byte(rng.Intn(256))
		}
		return string(b)
	case 3, 4: // fragments
		n := 1 + rng.Intn(6)
		var parts []string
		for i := 0; i < n; i++ {
			parts = append(parts, fragments[rng.Intn(len(fragments))])
		}
		return strings.Join(parts, []string{" ", "", "  "}[rng.Intn(3)])
	case 5: // valid + fragment
		return valid() + []string{" ", ""}[rng.Intn(2)] + fragments[rng.Intn(len(fragments))]
	case 6: // fragment + valid
		return fragments[rng.Intn(len(fragments))] + " " + valid()
	default: // byte mutation of a valid filter
		v := []byte(valid())
		if len(v) > 0 {
			v[rng.Intn(len(v))] = byte(rng.Intn(256))
		}
		return string(v)
	}
}

// genLoose writes a text from the parser's grammar with no regard for types: any term may stand on
// either side of any operator (`1 IN 2`, `'red' IN tags`, `(a) CONTAINS 3`, `LENGTH(1) == x EXISTS`).
// Most of these build; what they do at evaluation time is the "wrong types simply reject" clause.
func genLoose(rng *rand.Rand, depth int) string {
	term := func() string { return looseTerm(rng, depth) }
	if depth > 0 {
		switch rng.Intn(10) {
		case 0:
			return genLoose(rng, depth-1) + " AND " + genLoose(rng, depth-1)
		case 1:
			return genLoose(rng, depth-1) + " OR " + genLoose(rng, depth-1)
		case 2:
			return "NOT " + genLoose(rng, depth-1)
		}
	}
	ops := []string{"==", "!=", "<", "<=", ">", ">=", "IN", "NOT IN", "CONTAINS", "STARTS_WITH", "ENDS_WITH", "MATCHES", "EXISTS", "DOES NOT EXIST", ""}
	op := ops[rng.Intn(len(ops))]
	if rng.Intn(3) == 0 {
		op = []string{"IN", "NOT IN"}[rng.Intn(2)]
	}
	switch op {
	case "":
		return term()
	case "EXISTS", "DOES NOT EXIST":
		t := term() + " " + op
		if rng.Intn(3) == 0 {
			t += " " + ops[rng.Intn(12)] + " " + term()
		}
		return t
	}
	return term() + " " + op + " " + term()
}

func looseTerm(rng *rand.Rand, depth int) string {
	names := []string{"a", "b", "s", "name", "flag", "nul", "tags", "nums", "o", "o.x", "o.z.w", "items", "absent", "tags[0]", "nums[1]", "items[0].price", "tags.length", "o.missing", "absent.deep", "tags[7]"}
	k := rng.Intn(14)
	if depth <= 0 && k >= 9 && k != 13 {
		k = rng.Intn(9)
	}
	switch k {
	case 13: // an array element addressed by a fractional, negative or far index (the index is rounded)
		return []string{"tags", "nums", "items", "o", "s"}[rng.Intn(5)] + "[" +
			[]string{"0", "1", "2", "0.5", "1.5", "2.5", "3.5", "0.4", "1.6", "2.75", "3.75", "-0.5", "-0.4", "-1", "1e0", "99", "1e300", "-1e300"}[rng.Intn(18)] + "]"
	case 0, 1, 2:
		return names[rng.Intn(len(names))]
	case 3:
		return numLits[rng.Intn(len(numLits))]
	case 4:
		return "'" + []string{"red", "abc", "x", "", "[", "a.*"}[rng.Intn(6)] + "'"
	case 5:
		return []string{"true", "false", "null"}[rng.Intn(3)]
	case 6:
		return ":" + []string{"p", "a", "tags"}[rng.Intn(3)]
	case 7, 8:
		n := rng.Intn(4)
		items := make([]string, n)
		for i := range items {
			items[i] = []string{"1", "2.5", "'red'", "'x'", "true", "null"}[rng.Intn(6)]
		}
		return "[" + strings.Join(items, ", ") + "]"
	case 9, 10:
		return "(" + genLoose(rng, depth-1) + ")"
	case 11:
		return []string{"LENGTH", "EXISTS", "DOES_NOT_EXIST", "length", "f"}[rng.Intn(5)] + "(" + looseTerm(rng, depth-1) + ")"
	default:
		return names[rng.Intn(len(names))] + "[" + looseTerm(rng, depth-1) + "]"
	}
}

var malformedDocs = []string{`{"a":1,"s":"abc","tags":["x"],"o":{"x":1}}`, `{}`, `[]`, `[1,2]`, `"str"`, `3`, `null`, `true`, ``, `{`, `{"a":`, "\xff\xfe", `{"a":{"b":[{"c":null}]}}`}

func queryC14(o *Opts) {
	res := NewResult("C14", "query", o.Seed, o.Tier)
	res.Rule = "malformed filter texts (prefixes, deletions and byte mutations of valid filters, keyword fragments, random bytes, deep nesting) and grammar-directed type-blind texts (any term on either side of any operator) x metadata byte strings (valid, non-object, invalid JSON); " +
		"implementation outcome (filter/error/panic/hang) compared with the Lean model; non-trivial = text that is not a valid filter; distinct = distinct text"
	n := 40000
	if o.Tier == "thorough" {
		n = 1000000
	}
	if o.Scenarios > 0 {
		n = o.Scenarios
	}
	rng := rand.New(rand.NewSource(o.Seed))
	drv := StartDriver()
	defer drv.Close()
	rd := &renderer{rng: rng}
	valid := func() string { return rd.expr(genExpr(rng, 1+rng.Intn(4)), 0) }
	run := func(text string, md []byte) {
		res.Evaluations++
		real := realFilter(text, md)
		model := modelFilter(drv, text, md)
		res.Hit("real:" + real)
		if real == "builderr" || real == "panic" {
			res.DistinctCase(text)
		}
		if len(res.Samples) < 3 && real == "builderr" {
			res.Sample(map[string]any{"text": text, "metadata": string(md), "impl": real, "model": model})
		}
		replay := map[string]any{"text_hex": hx(text), "text": text, "metadata": string(md), "impl": real, "model": model}
		if real == "panic" || real == "hang" {
			sig := "C14/" + real
			if real == "panic" && strings.HasSuffix(strings.TrimSpace(text), "DOES NOT") {
				sig = "C14/panic/does-not-at-end"
			}
			res.Violate("impl-failure", sig, fmt.Sprintf("BuildFilter(%q) / applying it to %q: %s", text, md, real), replay)
		}
		// "invalid JSON … simply rejects": whatever the filter, metadata that is not JSON is never accepted
		if real == "true" && !json.Valid(md) {
			res.Violate("impl-failure", "C14/invalid-json-accepted", fmt.Sprintf("BuildFilter(%q) accepts the metadata %q, which is not valid JSON", text, md), replay)
		}
		if !json.Valid(md) {
			res.Hit("metadata:invalid-json:" + real)
		}
		if model != real {
			res.Violate("tie-broken", "tie/query/malformed", fmt.Sprintf("model=%s impl=%s for %q on %q", model, real, text, md), replay)
		} else {
			res.TracesValidated++
		}
		// determinism: the answer depends only on text and metadata
		if r2 := realFilter(text, md); r2 != real {
			res.Violate("impl-failure", "C14/nondeterministic", fmt.Sprintf("BuildFilter(%q) on %q answered %s then %s", text, md, real, r2), replay)
		}
	}
	// corpus first
	for _, f := range fragments {
		run(f, []byte(malformedDocs[0]))
		run("x "+f, []byte(malformedDocs[0]))
	}
	// patterns that do not compile, matched against a field that holds a string, the same filter text on
	// several documents (and each run applies it twice): an evaluation error is a rejection every time
	for _, pat := range []string{"[", "ab(c[", "(", "a{2,1}", "*a", "\\\\q", "(?P<n", "a**", "[z-a]"} {
		for _, f := range []string{"name", "s", "o.y", "tags[0]"} {
			text := f + " MATCHES '" + pat + "'"
			for _, d := range []string{`{"name":"ab(c[","s":"x","o":{"y":"abc"},"tags":["a","b"]}`, `{"name":"Jason","s":"","o":{"y":"["},"tags":["[" ]}`} {
				run(text, []byte(d))
			}
			res.Hit("stream:bad-regex")
		}
	}
	for i := 0; i < n; i++ {
		text := genMalformed(rng, valid)
		if i%3 == 2 {
			text = genLoose(rng, 1+rng.Intn(3))
			res.Hit("stream:loose")
		}
		md := []byte(malformedDocs[rng.Intn(len(malformedDocs))])
		if rng.Intn(4) == 0 || (i%3 == 2 && rng.Intn(2) == 0) {
			md, _ = json.Marshal(genDoc(rng))
		}
		run(text, md)
	}
	// deep nesting (bounded by the driver's native stack; the Go parser is recursive too)
	depths := []int{10, 100, 1000, 4000}
	if o.Tier == "thorough" {
		depths = append(depths, 16000)
	}
	for _, d := range depths {
		run(strings.Repeat("(", d)+"a == 1"+strings.Repeat(")", d), []byte(`{"a":1}`))
		run(strings.Repeat("(", d)+"a == 1", []byte(`{"a":1}`))
		run(strings.Repeat("NOT (", d)+"a == 1"+strings.Repeat(")", d), []byte(`{"a":1}`))
		run("a"+strings.Repeat("[0]", d), []byte(`{"a":[[[1]]]}`))
		run("a"+strings.Repeat(".b", d), []byte(`{"a":{"b":{"b":1}}}`))
		res.Hit(fmt.Sprintf("nesting:%d", d))
	}
	res.Write(o.Out)
}

// ---------- C15: whole text is one expression ----------

func queryC15(o *Opts) {
	res := NewResult("C15", "query", o.Seed, o.Tier)
	res.Rule = "triples (A, B, J) of generated valid expressions and junk token sequences: texts 'A J', 'A B', 'A and B' must be rejected by BuildFilter; 'x == null AND B' must equal the conjunction under the reference semantics; " +
		"non-trivial = every case; distinct = distinct text"
	n := 15000
	if o.Tier == "thorough" {
		n = 300000
	}
	if o.Scenarios > 0 {
		n = o.Scenarios
	}
	rng := rand.New(rand.NewSource(o.Seed))
	drv := StartDriver()
	defer drv.Close()
	rd := &renderer{rng: rng}
	junk := []string{"1", "'x'", "foo", "and", "or", "not", "b == 2", "true", "null", ")", "]", "=", "!", "x y", "42 43", "a.b", ",", "'unterminated", "AND", "OR", "IN", "$", "#",
		// keyword and punctuation tokens that start something the parser might swallow and then drop
		"NOT", "NOT NOT", "not in", "DOES", "DOES NOT", "NOT AND c == 1", "NOT OR c == 1", "NOT )", ":p", "[", "(", "LENGTH", "CONTAINS", "NOT CONTAINS 'x'", "==", "7 AND a == 1", "'x' OR a == 1", "NOT 1", ") AND a == 1", "] OR a == 1", ", a == 1"}
	// complete expressions that end in each kind of token (identifier, path, literals, closers, keywords)
	tails := []string{"a == b", "flag", "a == o.y", "s == tags[0]", "s == 'q'", "a == 1", "flag == true", "nul == null", "a IN [1, 2]", "a NOT IN [1]", "a EXISTS", "a DOES NOT EXIST",
		"(a == 1)", "NOT flag", "LENGTH(tags) == 2", "a == :p", "s CONTAINS s"}
	for i := 0; i < n; i++ {
		A := genExpr(rng, 1+rng.Intn(3))
		B := genExpr(rng, 1+rng.Intn(3))
		docv := genDoc(rng)
		md, _ := json.Marshal(docv)
		ta, tb := rd.expr(A, 0), rd.expr(B, 0)
		switch rng.Intn(4) {
		case 0:
			ta = tails[rng.Intn(len(tails))]
		case 1:
			ta = rd.expr(A, 2) + " AND " + tails[rng.Intn(len(tails))]
		}
		// an identifier followed by "(" is a function call and "[" an index: `a == b (c == 1)` is one
		// expression, not two. Keep A's last token a literal in that case.
		if t := strings.TrimLeft(tb, " \t\r\n"); strings.HasPrefix(t, "(") || strings.HasPrefix(t, "[") {
			last := ta[len(ta)-1]
			if last != ')' && last != ']' && last != '\'' && !(last >= '0' && last <= '9') {
				ta = ta + " AND a == 1"
			}
		}
		var text, kind string
		switch rng.Intn(4) {
		case 0:
			text, kind = ta+" "+junk[rng.Intn(len(junk))], "A J"
		case 1:
			text, kind = ta+" "+tb, "A B"
		case 2:
			text, kind = ta+" and "+tb, "A and B"
		default:
			kind = "null-then-and"
		}
		res.Evaluations++
		res.Hit("case:" + kind)
		if kind == "null-then-and" {
			fld := []string{"nul", "a", "absent", "s"}[rng.Intn(4)]
			text = fld + " == null AND " + rd.expr(B, 2)
			l := QLit{Kind: "Z"}
			conj := &QExpr{Kind: "A", A: &QExpr{Kind: "C", Op: "eq", Path: F(fld), Lit: &l}, B: B}
			real := realFilter(text, md)
			model := modelFilter(drv, text, md)
			enc, doc := encDocBytes(md)
			nt, rt := tablesFor(text, doc)
			spec := drv.Send(fmt.Sprintf("denote %s %s %s %s", conj.Enc(), nt, rt, enc))
			res.DistinctCase(text + string(md))
			replay := map[string]any{"text": text, "doc": string(md), "impl": real, "model": model, "denote": spec}
			if model != real {
				res.Violate("tie-broken", "tie/query/null-and", fmt.Sprintf("model=%s impl=%s for %q", model, real, text), replay)
			} else {
				res.TracesValidated++
			}
			if spec != "illtyped" && !strings.HasPrefix(spec, "bad-op") && strings.Fields(spec)[0] != real {
				res.Violate("impl-failure", "C15/condition-after-null-ignored",
					fmt.Sprintf("%q on %s: implementation says %s, the conjunction is %s", text, md, real, strings.Fields(spec)[0]), replay)
			}
			continue
		}
		// the trailing part must not accidentally continue the expression: the junk list and the
		// separators are chosen so that `A <junk>` is never itself a valid expression, except
		// connective keywords followed by nothing (rejected anyway) — confirmed by the model.
		real := realFilter(text, md)
		model := modelFilter(drv, text, md)
		res.DistinctCase(text)
		if len(res.Samples) < 3 {
			res.Sample(map[string]any{"kind": kind, "text": text, "impl": real, "model": model})
		}
		replay := map[string]any{"kind": kind, "text": text, "doc": string(md), "impl": real, "model": model}
		if model != real {
			res.Violate("tie-broken", "tie/query/trailing", fmt.Sprintf("model=%s impl=%s for %q", model, real, text), replay)
		} else {
			res.TracesValidated++
		}
		if real != "builderr" {
			res.Violate("impl-failure", "C15/trailing-tokens-accepted", fmt.Sprintf("BuildFilter(%q) [%s] was accepted (%s) although text follows a complete expression", text, kind, real), replay)
		}
	}
	res.Write(o.Out)
}

func init() {
	subcommands["query-C13"] = queryC13
	subcommands["query-C14"] = queryC14
	subcommands["query-C15"] = queryC15
}
