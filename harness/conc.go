package main

import (
	"bytes"
	"fmt"
	"math"
	"math/rand"
	"os"
	"os/exec"
	"path/filepath"
	"runtime"
	"sort"
	"strings"
	"sync"
	"sync/atomic"
	"time"

	"github.com/anishathalye/porcupine"
	"github.com/smhanov/syzgydb"
)

// ---------- sequential specification (the finite map of C01) for the linearizability check ----------

type linIn struct {
	Op   string
	ID   uint64
	Meta string
	Vec  string
}
type linOut struct {
	Err bool
	Val string
}

type linState map[uint64][2]string // id -> (meta, codes)

func cloneState(s linState) linState {
	n := linState{}
	for k, v := range s {
		n[k] = v
	}
	return n
}

func stateIDs(s linState) string {
	ids := make([]uint64, 0, len(s))
	for k := range s {
		ids = append(ids, k)
	}
	sort.Slice(ids, func(i, j int) bool { return ids[i] < ids[j] })
	return joinU(ids)
}

var linModel = porcupine.Model{
	Init: func() interface{} { return linState{} },
	Step: func(state, input, output interface{}) (bool, interface{}) {
		s := state.(linState)
		in := input.(linIn)
		out := output.(linOut)
		switch in.Op {
		case "add":
			n := cloneState(s)
			n[in.ID] = [2]string{in.Meta, in.Vec}
			return !out.Err, n
		case "upd":
			cur, ok := s[in.ID]
			if !ok {
				return out.Err, s
			}
			n := cloneState(s)
			n[in.ID] = [2]string{in.Meta, cur[1]}
			return !out.Err, n
		case "del":
			if _, ok := s[in.ID]; !ok {
				return out.Err, s
			}
			n := cloneState(s)
			delete(n, in.ID)
			return !out.Err, n
		case "get":
			cur, ok := s[in.ID]
			if !ok {
				return out.Err, s
			}
			return !out.Err && out.Val == cur[0]+"|"+cur[1], s
		case "ids", "search":
			return out.Val == stateIDs(s), s
		case "count", "stats":
			return out.Val == fmt.Sprint(len(s)), s
		}
		return false, s
	},
	Equal: func(a, b interface{}) bool {
		x, y := a.(linState), b.(linState)
		if len(x) != len(y) {
			return false
		}
		for k, v := range x {
			if y[k] != v {
				return false
			}
		}
		return true
	},
}

// ---------- stress child (built with -race) ----------

func concStress(o *Opts) {
	seeded := o.Ops%2 == 1 // odd "ops" flag selects the seeded (deterministic) random source
	if seeded {
		syzgydb.Configure(syzgydb.Config{RandomSeed: 4242})
	}
	rng := rand.New(rand.NewSource(o.Seed))
	path := filepath.Join(o.Scratch, fmt.Sprintf("conc-%d.dat", o.Seed))
	os.Remove(path)
	dim := 2
	q := quants[int(o.Seed)%5]
	c, err := syzgydb.NewCollection(syzgydb.CollectionOptions{Name: path, DistanceMethod: int(o.Seed) % 2, DimensionCount: dim, Quantization: q, FileMode: syzgydb.CreateAndOverwrite})
	if err != nil {
		fatal("NewCollection: %v", err)
	}
	// cross the leaf-split threshold once (single caller): the five per-tree insert goroutines of
	// one AddDocument all reach split() and its random picks; then empty the collection again
	for id := uint64(1000); id < 1130; id++ {
		c.AddDocument(id, []float64{rng.Float64()*2 - 1, rng.Float64()*2 - 1}, []byte("{}"))
	}
	for id := uint64(1000); id < 1130; id++ {
		c.VerifRemoveDocument(id)
	}
	nthreads := 2 + rng.Intn(7)
	if o.Scenarios > 0 {
		nthreads = o.Scenarios
	}
	perThread := 14
	var mu sync.Mutex
	var ops []porcupine.Operation
	var progress int64
	done := make(chan struct{})
	go func() { // watchdog: no operation completes for a long time = some call never returns
		last := int64(-1)
		for {
			select {
			case <-done:
				return
			case <-time.After(8 * time.Second):
				cur := atomic.LoadInt64(&progress)
				if cur == last {
					buf := make([]byte, 1<<16)
					n := runtime.Stack(buf, true)
					blocked := strings.Count(string(buf[:n]), "sync.(*RWMutex)")
					fmt.Printf("CONCRESULT hang\tno operation completed for 8s; %d goroutines parked on the collection RWMutex\n", blocked)
					os.Exit(0)
				}
				last = cur
			}
		}
	}()
	var wg sync.WaitGroup
	for t := 0; t < nthreads; t++ {
		wg.Add(1)
		trng := rand.New(rand.NewSource(o.Seed*131 + int64(t)))
		go func(t int) {
			defer wg.Done()
			defer func() {
				if r := recover(); r != nil {
					fmt.Printf("CONCRESULT panic\t%v\n", r)
					os.Exit(0)
				}
			}()
			for i := 0; i < perThread; i++ {
				id := uint64(trng.Intn(4))
				in := linIn{ID: id}
				var out linOut
				vec := []float64{math.Round(trng.Float64()*8) / 8, math.Round(trng.Float64()*8) / 8}
				meta := fmt.Sprintf(`{"t":%d,"i":%d}`, t, i)
				call := time.Now().UnixNano()
				switch k := trng.Intn(100); {
				case k < 30:
					in.Op, in.Meta = "add", meta
					codes := make([]uint64, dim)
					for j := range vec {
						codes[j] = syzgydb.VerifQuantize(vec[j], q)
					}
					in.Vec = joinU(codes)
					c.AddDocument(id, vec, []byte(meta))
				case k < 42:
					in.Op, in.Meta = "upd", meta
					out.Err = c.UpdateDocument(id, []byte(meta)) != nil
				case k < 56:
					in.Op = "del"
					out.Err = c.VerifRemoveDocument(id) != nil
				case k < 72:
					in.Op = "get"
					d, err := c.GetDocument(id)
					out.Err = err != nil
					if err == nil {
						codes := make([]uint64, dim)
						for j := range d.Vector {
							codes[j] = syzgydb.VerifQuantize(d.Vector[j], q)
						}
						out.Val = string(bytes.Clone(d.Metadata)) + "|" + joinU(codes)
					}
				case k < 80:
					in.Op = "ids"
					out.Val = joinU(c.GetAllIDs())
				case k < 86:
					in.Op = "count"
					out.Val = fmt.Sprint(c.GetDocumentCount())
				case k < 93:
					in.Op = "stats"
					out.Val = fmt.Sprint(c.ComputeStats().DocumentCount)
				default:
					in.Op = "search"
					r := c.Search(syzgydb.SearchArgs{Vector: vec, Radius: 1e9, Precision: []string{"exact", ""}[trng.Intn(2)]})
					var ids []uint64
					for _, x := range r.Results {
						ids = append(ids, x.ID)
					}
					sort.Slice(ids, func(a, b int) bool { return ids[a] < ids[b] })
					out.Val = joinU(ids)
				}
				ret := time.Now().UnixNano()
				atomic.AddInt64(&progress, 1)
				mu.Lock()
				ops = append(ops, porcupine.Operation{ClientId: t, Input: in, Call: call, Output: out, Return: ret})
				mu.Unlock()
			}
		}(t)
	}
	wg.Wait()
	// readers-only phase: with no writer about, every read has one right answer (the one a single caller gets), and under
	// -race any write a reader makes to shared state is reported, because nothing orders two holders of the read lock
	for id := uint64(2000); id < 2000+uint64(40+rng.Intn(120)); id++ {
		c.AddDocument(id, []float64{rng.Float64()*2 - 1, rng.Float64()*2 - 1}, []byte(fmt.Sprintf(`{"n":%d}`, id%7)))
	}
	type rq struct {
		name string
		args syzgydb.SearchArgs
	}
	even := func(id uint64, metadata []byte) bool { return id%2 == 0 }
	var rqs []rq
	for i := 0; i < 4; i++ {
		v := []float64{rng.Float64()*2 - 1, rng.Float64()*2 - 1}
		rqs = append(rqs, rq{"k-default", syzgydb.SearchArgs{Vector: v, K: 1 + rng.Intn(60)}}, rq{"k-default-filter", syzgydb.SearchArgs{Vector: v, K: 500, Filter: even}},
			rq{"radius-default", syzgydb.SearchArgs{Vector: v, Radius: 0.2 + rng.Float64()}}, rq{"k-exact", syzgydb.SearchArgs{Vector: v, K: 5, Precision: "exact"}})
	}
	rqs = append(rqs, rq{"listing", syzgydb.SearchArgs{Offset: 3, Limit: 20}}, rq{"listing-filter", syzgydb.SearchArgs{Filter: even}})
	// canonical form of an answer: a listing is its id sequence (the order is part of the contract); a K / radius answer is
	// its sequence of distances plus the ids of the entries strictly closer than the last one — documents at exactly the
	// same distance may legitimately come in any order, and which of several equidistant ones fills the last places is not fixed
	answer := func(a syzgydb.SearchArgs) string {
		a.Vector = append([]float64{}, a.Vector...)
		rs := c.Search(a).Results
		var sb strings.Builder
		if a.K == 0 && a.Radius == 0 {
			for _, x := range rs {
				fmt.Fprintf(&sb, "%d ", x.ID)
			}
			return sb.String()
		}
		last := math.Inf(1)
		if len(rs) > 0 {
			last = rs[len(rs)-1].Distance
		}
		var closer []uint64
		for _, x := range rs {
			fmt.Fprintf(&sb, "%x ", math.Float64bits(x.Distance))
			if x.Distance < last {
				closer = append(closer, x.ID)
			}
		}
		sort.Slice(closer, func(i, j int) bool { return closer[i] < closer[j] })
		return sb.String() + "| " + joinU(closer)
	}
	alone := make([]string, len(rqs))
	for i, q := range rqs {
		alone[i] = answer(q.args)
	}
	idsAlone, countAlone := joinU(c.GetAllIDs()), c.GetDocumentCount()
	var disagree atomic.Value
	var wg2 sync.WaitGroup
	for t := 0; t < nthreads; t++ {
		wg2.Add(1)
		go func(t int) {
			defer wg2.Done()
			defer func() {
				if r := recover(); r != nil {
					fmt.Printf("CONCRESULT panic\treaders-only phase: %v\n", r)
					os.Exit(0)
				}
			}()
			for round := 0; round < 3; round++ {
				for i := range rqs {
					j := (i + t*5 + round) % len(rqs)
					if got := answer(rqs[j].args); got != alone[j] {
						disagree.Store(fmt.Sprintf("%s search overlapping other readers returned [%s]; the same search by a single caller on the same state returned [%s]", rqs[j].name, abbreviate(got, 300), abbreviate(alone[j], 300)))
					}
					atomic.AddInt64(&progress, 1)
				}
				if got := joinU(c.GetAllIDs()); got != idsAlone {
					disagree.Store("GetAllIDs overlapping other readers differs from the single-caller answer")
				}
				if got := c.GetDocumentCount(); got != countAlone {
					disagree.Store("GetDocumentCount overlapping other readers differs from the single-caller answer")
				}
				c.ComputeStats()
				c.GetDocument(2000 + uint64(t))
			}
		}(t)
	}
	wg2.Wait()
	close(done)
	c.Close()
	os.Remove(path)
	if d := disagree.Load(); d != nil {
		fmt.Printf("CONCRESULT notlinearizable\treaders-only phase (%d goroutines, no writer): %s\n", nthreads, d.(string))
		return
	}
	res := porcupine.CheckOperationsTimeout(linModel, ops, 20*time.Second)
	switch res {
	case porcupine.Ok:
		fmt.Printf("CONCRESULT ok\t%d operations by %d goroutines linearizable (seeded=%v)\n", len(ops), nthreads, seeded)
	case porcupine.Illegal:
		var sb strings.Builder
		sort.Slice(ops, func(i, j int) bool { return ops[i].Call < ops[j].Call })
		for _, op := range ops {
			fmt.Fprintf(&sb, "[%d %v -> %v] ", op.ClientId, op.Input, op.Output)
		}
		fmt.Printf("CONCRESULT notlinearizable\t%s\n", abbreviate(sb.String(), 3000))
	default:
		fmt.Printf("CONCRESULT unknown\tlinearizability check timed out on %d operations\n", len(ops))
	}
}

// ---------- deterministic replay of the nested read lock ----------

func concNested(o *Opts) {
	path := filepath.Join(o.Scratch, "nested.dat")
	os.Remove(path)
	c, err := syzgydb.NewCollection(syzgydb.CollectionOptions{Name: path, DimensionCount: 2, Quantization: 64, FileMode: syzgydb.CreateAndOverwrite})
	if err != nil {
		fatal("NewCollection: %v", err)
	}
	c.AddDocument(1, []float64{0, 1}, []byte("{}"))
	c.AddDocument(2, []float64{1, 0}, []byte("{}"))
	writerDone := make(chan struct{})
	statsDone := make(chan struct{})
	var once sync.Once
	syzgydb.VerifSetPointHook(func(name string, db *syzgydb.SpanFile) {
		if name != "computeStats.locked" {
			return
		}
		once.Do(func() {
			// ComputeStats holds the read lock here. Let a writer arrive and wait for it.
			go func() {
				c.UpdateDocument(1, []byte(`{"w":1}`))
				close(writerDone)
			}()
			time.Sleep(300 * time.Millisecond)
		})
	})
	go func() {
		c.ComputeStats()
		close(statsDone)
	}()
	timeout := time.After(6 * time.Second)
	got := 0
	for got < 2 {
		select {
		case <-writerDone:
			writerDone = nil
			got++
		case <-statsDone:
			statsDone = nil
			got++
		case <-timeout:
			buf := make([]byte, 1<<16)
			n := runtime.Stack(buf, true)
			fmt.Printf("CONCRESULT hang\tComputeStats (holding the read lock, asking for it again) and a waiting writer block each other; %d goroutines parked on the RWMutex\n",
				strings.Count(string(buf[:n]), "sync.(*RWMutex)"))
			os.Exit(0)
		}
	}
	syzgydb.VerifSetPointHook(nil)
	c.Close()
	os.Remove(path)
	fmt.Printf("CONCRESULT ok\tComputeStats and a concurrent writer both returned\n")
}

// ---------- parent ----------

func runRaceChild(o *Opts, args []string, tag string) (string, string, string) {
	logBase := filepath.Join(o.Scratch, "race-"+tag)
	bin := os.Getenv("VERIF_CORR_RACE")
	if bin == "" {
		bin = os.Args[0] + "-race"
	}
	cmd := exec.Command(bin, append(args, "--scratch", o.Scratch)...)
	cmd.Env = append(os.Environ(), "GORACE=halt_on_error=0 exitcode=0 log_path="+logBase)
	outb, err := cmd.CombinedOutput()
	out := string(outb)
	races := ""
	if m, _ := filepath.Glob(logBase + ".*"); len(m) > 0 {
		for _, f := range m {
			b, _ := os.ReadFile(f)
			races += string(b)
			os.Remove(f)
		}
	}
	kind, detail := "crash", abbreviate(out, 800)
	if i := strings.Index(out, "CONCRESULT "); i >= 0 {
		line := strings.SplitN(out[i+11:], "\n", 2)[0]
		p := strings.SplitN(line, "\t", 2)
		kind = p[0]
		if len(p) > 1 {
			detail = p[1]
		}
	} else if err == nil {
		kind, detail = "crash", "child produced no result: "+abbreviate(out, 400)
	}
	return kind, detail, races
}

func raceSignature(report string) string {
	// first two distinct syzgydb frames of the report
	var frames []string
	for _, l := range strings.Split(report, "\n") {
		l = strings.TrimSpace(l)
		if strings.HasPrefix(l, "github.com/smhanov/syzgydb.") || strings.HasPrefix(l, "math/rand.(*Rand)") {
			f := strings.SplitN(l, "(", 2)[0]
			if strings.HasPrefix(l, "github.com/smhanov/syzgydb.(") {
				f = strings.SplitN(strings.TrimPrefix(l, "github.com/smhanov/syzgydb."), "(0x", 2)[0]
				f = strings.TrimSuffix(strings.SplitN(f, " ", 2)[0], "()")
			}
			if len(frames) == 0 || frames[len(frames)-1] != f {
				frames = append(frames, f)
			}
			if len(frames) == 2 {
				break
			}
		}
	}
	return strings.Join(frames, "+")
}

func concC10(o *Opts) {
	res := NewResult("C10", "concurrency", o.Seed, o.Tier)
	res.Rule = "(1) deterministic schedule: ComputeStats paused (verif hook) while it holds the read lock until a writer waits; (2) stress runs built with -race: 2-8 goroutines x 14 random operations (add/overwrite, update, remove, get, ids, count, stats, exact and default search) on 4 overlapping ids, " +
		"GOMAXPROCS 1/2/16, default and seeded random source; every run ends with a readers-only phase on 40-160 documents (all goroutines issue K/radius/listing searches in default and exact precision, with and without a filter, GetAllIDs, count, stats, get: each answer must equal the single-caller answer on the same state, and -race sees any write a reader makes to shared state); data-race reports, panics, a watchdog (no call completes for 8 s) and a linearizability check of the recorded history against the finite-map specification (porcupine) are outcomes; distinct = distinct run"
	nruns := 18
	if o.Tier == "thorough" {
		nruns = 150
	}
	if o.Scenarios > 0 {
		nruns = o.Scenarios
	}
	// (1)
	kind, detail, _ := runRaceChild(o, []string{"conc-nested"}, "nested")
	res.Evaluations++
	res.Hit("nested:" + kind)
	if kind != "ok" {
		sig := "C10/" + kind + "/nested-read-lock"
		res.Violate("impl-failure", sig, detail, map[string]any{"schedule": "ComputeStats acquires RLock; writer calls UpdateDocument (Lock pending); ComputeStats calls computeAverageDistance -> RLock"})
	}
	// (2)
	for i := 0; i < nruns; i++ {
		seed := o.Seed*1000 + int64(i)
		procs := []string{"1", "2", "16"}[i%3]
		seeded := (i/3)%2 == 1
		opsFlag := "2"
		if seeded {
			opsFlag = "3"
		}
		os.Setenv("GOMAXPROCS", procs)
		kind, detail, races := runRaceChild(o, []string{"conc-stress", "--seed", fmt.Sprint(seed), "--ops", opsFlag}, fmt.Sprint(i))
		os.Unsetenv("GOMAXPROCS")
		res.Evaluations++
		res.DistinctCase(fmt.Sprint(i))
		res.Hit(fmt.Sprintf("stress:%s:procs%s:seeded=%v", kind, procs, seeded))
		replay := map[string]any{"seed": seed, "gomaxprocs": procs, "seeded": seeded}
		if i < 2 {
			res.Sample(map[string]any{"run": i, "outcome": kind, "detail": abbreviate(detail, 200)})
		}
		switch kind {
		case "ok":
			res.TracesValidated++
		case "hang":
			res.Violate("impl-failure", "C10/hang/stress", detail, replay)
		case "notlinearizable":
			res.Violate("impl-failure", "C10/not-linearizable", detail, replay)
		case "unknown":
			res.Notes = append(res.Notes, detail)
		default:
			res.Violate("impl-failure", "C10/"+kind+"/stress", detail, replay)
		}
		if strings.Contains(races, "DATA RACE") {
			first := races
			if j := strings.Index(races[10:], "=================="); j > 0 {
				first = races[:j+10]
			}
			sig := "C10/data-race/" + raceSignature(first)
			res.Violate("impl-failure", sig, abbreviate(first, 1500), replay)
		}
	}
	res.Write(o.Out)
}

func init() {
	subcommands["conc-C10"] = concC10
	subcommands["conc-stress"] = concStress
	subcommands["conc-nested"] = concNested
}
