package main

import (
	"bufio"
	"fmt"
	"io"
	"os"
	"os/exec"
)

// Driver is the compiled Lean model speaking the line protocol.
type Driver struct {
	cmd *exec.Cmd
	in  io.WriteCloser
	out *bufio.Reader
	n   int
}

func StartDriver() *Driver {
	path := os.Getenv("VERIF_DRIVER")
	if path == "" {
		path = "/verif/lean/.lake/build/bin/driver"
	}
	cmd := exec.Command(path)
	in, err := cmd.StdinPipe()
	if err != nil {
		fatal("driver stdin: %v", err)
	}
	out, err := cmd.StdoutPipe()
	if err != nil {
		fatal("driver stdout: %v", err)
	}
	cmd.Stderr = os.Stderr
	if err := cmd.Start(); err != nil {
		fatal("cannot start model driver %s: %v", path, err)
	}
	return &Driver{cmd: cmd, in: in, out: bufio.NewReaderSize(out, 1<<20)}
}

// Send writes one request line and returns the reply line (without newline).
func (d *Driver) Send(line string) string {
	d.n++
	if _, err := io.WriteString(d.in, line+"\n"); err != nil {
		fatal("driver write: %v", err)
	}
	reply, err := d.out.ReadString('\n')
	if err != nil {
		fatal("driver died after request %q: %v", abbreviate(line, 200), err)
	}
	return reply[:len(reply)-1]
}

func (d *Driver) Close() {
	d.in.Close()
	d.cmd.Wait()
}

func abbreviate(s string, n int) string {
	if len(s) <= n {
		return s
	}
	return s[:n] + fmt.Sprintf("…(%d bytes)", len(s))
}

func fatal(format string, a ...any) {
	fmt.Fprintf(os.Stderr, "harness: "+format+"\n", a...)
	os.Exit(3)
}
