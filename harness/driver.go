package main

import (
	"bufio"
	"encoding/hex"
	"encoding/json"
	"fmt"
	"io"
	"os"
	"os/exec"
	"strings"

	"github.com/smhanov/syzgydb"
)

// Driver is the compiled Lean model speaking the line protocol.
type Driver struct {
	cmd *exec.Cmd
	in  io.WriteCloser
	out *bufio.Reader
	n   int
}

func StartDriver() *Driver {
	path := os.Getenv("VERIF_DRIVER")
	if path == "" {
		path = "/verif/lean/.lake/build/bin/driver"
	}
	cmd := exec.Command(path)
	in, err := cmd.StdinPipe()
	if err != nil {
		fatal("driver stdin: %v", err)
	}
	out, err := cmd.StdoutPipe()
	if err != nil {
		fatal("driver stdout: %v", err)
	}
	cmd.Stderr = os.Stderr
	if err := cmd.Start(); err != nil {
		fatal("cannot start model driver %s: %v", path, err)
	}
	return &Driver{cmd: cmd, in: in, out: bufio.NewReaderSize(out, 1<<20)}
}

// Send writes one request line and returns the reply line (without newline).
func (d *Driver) Send(line string) string {
	d.n++
	if _, err := io.WriteString(d.in, line+"\n"); err != nil {
		fatal("driver write: %v", err)
	}
	reply, err := d.out.ReadString('\n')
	if err != nil {
		fatal("driver died after request %q: %v", abbreviate(line, 200), err)
	}
	return reply[:len(reply)-1]
}

func (d *Driver) Close() {
	d.in.Close()
	d.cmd.Wait()
}

func abbreviate(s string, n int) string {
	if len(s) <= n {
		return s
	}
	return s[:n] + fmt.Sprintf("…(%d bytes)", len(s))
}

func fatal(format string, a ...any) {
	fmt.Fprintf(os.Stderr, "harness: "+format+"\n", a...)
	os.Exit(3)
}

// SendNew issues the model's `new` command; when the model asks for the decoding of an options
// record that this code did not write itself (`need-json <hex>`), the answer of encoding/json —
// exactly the call NewCollection makes — is supplied as an oracle and the command is repeated.
func (d *Driver) SendNew(mode, metric, dim, quant int, path string) string {
	base := fmt.Sprintf("new %d %d %d %d %s", mode, metric, dim, quant, hexW([]byte(path)))
	cmd := base
	for i := 0; i < 4; i++ {
		r := d.Send(cmd)
		if !strings.HasPrefix(r, "need-json ") {
			return r
		}
		blobHex := strings.TrimPrefix(r, "need-json ")
		blob := []byte{}
		if blobHex != "-" {
			blob, _ = hex.DecodeString(blobHex)
		}
		opts := syzgydb.CollectionOptions{Name: path, DistanceMethod: metric, DimensionCount: dim, Quantization: quant}
		ans := "err"
		if err := json.Unmarshal(blob, &opts); err == nil && opts.DistanceMethod >= 0 && opts.DimensionCount >= 0 && opts.Quantization >= 0 {
			ans = fmt.Sprintf("%d,%d,%d", opts.DistanceMethod, opts.DimensionCount, opts.Quantization)
		} else if err == nil {
			ans = "err" // negative values cannot be represented in the model; reported by the caller as a divergence if it matters
		}
		cmd = cmd + " " + blobHex + "=" + ans
	}
	return "need-json-loop"
}
