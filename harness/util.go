package main

import (
	"encoding/json"
	"os"
)

func writeJSON(path string, v any) {
	b, err := json.Marshal(v)
	if err != nil {
		fatal("json: %v", err)
	}
	if err := os.WriteFile(path, b, 0644); err != nil {
		fatal("write %s: %v", path, err)
	}
}

func readJSON(path string, v any) {
	b, err := os.ReadFile(path)
	if err != nil {
		fatal("read %s: %v", path, err)
	}
	if err := json.Unmarshal(b, v); err != nil {
		fatal("parse %s: %v", path, err)
	}
}
