package main

import (
	"encoding/json"
	"math/rand"
	"os"
)

func writeJSON(path string, v any) {
	b, err := json.Marshal(v)
	if err != nil {
		fatal("json: %v", err)
	}
	if err := os.WriteFile(path, b, 0644); err != nil {
		fatal("write %s: %v", path, err)
	}
}

func readJSON(path string, v any) {
	b, err := os.ReadFile(path)
	if err != nil {
		fatal("read %s: %v", path, err)
	}
	if err := json.Unmarshal(b, v); err != nil {
		fatal("parse %s: %v", path, err)
	}
}

// bigIDs are document ids around the signed/unsigned and the float64-exact boundaries: ids are
// uint64 everywhere in the API, and code that goes through int, int64 or float64 loses them.
var bigIDs = []uint64{1<<63 - 1, 1 << 63, 1<<63 + 5, 1<<64 - 1, 1<<53 + 1, 1 << 32}

// genID: mostly a small id below `small` (so that histories revisit ids), sometimes a boundary id
func genID(rng *rand.Rand, small int) uint64 {
	if rng.Intn(8) == 0 {
		return bigIDs[rng.Intn(len(bigIDs))]
	}
	return uint64(rng.Intn(small))
}
