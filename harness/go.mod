module verifharness

go 1.21

require (
	github.com/anishathalye/porcupine v1.3.0
	github.com/smhanov/syzgydb v0.0.0
)

require (
	github.com/NYTimes/gziphandler v1.1.1 // indirect
	github.com/edsrzf/mmap-go v1.1.0 // indirect
	golang.org/x/sys v0.18.0 // indirect
)

replace github.com/smhanov/syzgydb => /repo
