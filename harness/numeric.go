package main

import (
	"fmt"
	"math"
	"math/rand"
	"os"
	"path/filepath"
	"strings"

	"github.com/smhanov/syzgydb"
)

func bitsList(v []float64) string {
	if len(v) == 0 {
		return "-"
	}
	s := make([]string, len(v))
	for i, x := range v {
		s[i] = fmt.Sprint(math.Float64bits(x))
	}
	return strings.Join(s, ",")
}

func genVec(rng *rand.Rand, dim int) []float64 {
	v := make([]float64, dim)
	kind := rng.Intn(8)
	for i := range v {
		switch kind {
		case 0: // on a quantization grid
			b := []int{4, 8, 16}[rng.Intn(3)]
			v[i] = syzgydb.VerifDequantize(uint64(rng.Intn(1<<b)), b)
		case 1: // tiny
			v[i] = (rng.Float64()*2 - 1) * 1e-150
		case 2: // large
			v[i] = (rng.Float64()*2 - 1) * 1e100
		case 3: // sparse
			if rng.Intn(3) == 0 {
				v[i] = rng.Float64()*2 - 1
			}
		default:
			v[i] = rng.Float64()*2 - 1
		}
	}
	return v
}

func scale(v []float64, k float64) []float64 {
	out := make([]float64, len(v))
	for i, x := range v {
		out[i] = x * k
	}
	return out
}

func isZero(v []float64) bool {
	for _, x := range v {
		if x != 0 {
			return false
		}
	}
	return true
}

func numericC06(o *Opts) {
	res := NewResult("C06", "distance", o.Seed, o.Tier)
	res.Rule = "pairs/triples of finite float64 vectors (identical, parallel, anti-parallel, nearly parallel, on every quantization grid, tiny, large, sparse, zero), dimensions 1..64 (quick) / 1..1536 (thorough); " +
		"metric laws evaluated on the implementation; bit-exact comparison of euclideanDistance and of the Acos argument of angularDistance with the Lean model on binary64; non-trivial = pair of non-zero vectors; distinct = distinct pair"
	n, maxDim := 60000, 64
	if o.Tier == "thorough" {
		n, maxDim = 600000, 1536
	}
	if o.Scenarios > 0 {
		n = o.Scenarios
	}
	rng := rand.New(rand.NewSource(o.Seed))
	drv := StartDriver()
	defer drv.Close()
	for i := 0; i < n; i++ {
		dim := 1 + rng.Intn(8)
		if rng.Intn(5) == 0 {
			dim = 1 + rng.Intn(maxDim)
		}
		a := genVec(rng, dim)
		var b []float64
		rel := []string{"random", "identical", "parallel", "antiparallel", "near", "zero"}[rng.Intn(6)]
		switch rel {
		case "identical":
			b = append([]float64{}, a...)
		case "parallel":
			b = scale(a, 0.5+rng.Float64()*3)
		case "antiparallel":
			b = scale(a, -(0.5 + rng.Float64()*3))
		case "near":
			b = append([]float64{}, a...)
			j := rng.Intn(dim)
			b[j] = math.Nextafter(b[j], math.Inf(1))
		case "zero":
			b = make([]float64, dim)
		default:
			b = genVec(rng, dim)
		}
		c := genVec(rng, dim)
		res.Evaluations++
		res.Hit("pair:" + rel)
		if !isZero(a) && !isZero(b) {
			res.DistinctCase(fmt.Sprintf("%d", i))
		}
		replay := map[string]any{"a": a, "b": b, "c": c, "relation": rel}
		fail := func(sig, detail string) { res.Violate("impl-failure", "C06/"+sig, detail, replay) }
		// ---- Euclidean
		e1, e2 := syzgydb.VerifEuclidean(a, b), syzgydb.VerifEuclidean(b, a)
		if math.IsNaN(e1) || math.IsInf(e1, 0) || e1 < 0 {
			fail("euclid-not-a-finite-nonnegative-number", fmt.Sprintf("euclidean = %v", e1))
		}
		if math.Float64bits(e1) != math.Float64bits(e2) {
			fail("euclid-asymmetric", fmt.Sprintf("d(a,b)=%v d(b,a)=%v", e1, e2))
		}
		if s := syzgydb.VerifEuclidean(a, a); s != 0 {
			fail("euclid-self-nonzero", fmt.Sprintf("d(a,a)=%v", s))
		}
		ac, ab, bc := syzgydb.VerifEuclidean(a, c), e1, syzgydb.VerifEuclidean(b, c)
		if ac > (ab+bc)*(1+1e-12)+1e-300 {
			fail("euclid-triangle", fmt.Sprintf("d(a,c)=%v > d(a,b)+d(b,c)=%v", ac, ab+bc))
		}
		m := drv.Send(fmt.Sprintf("euclid %s %s", bitsList(a), bitsList(b)))
		if m != fmt.Sprintf("f %d", math.Float64bits(e1)) {
			res.Violate("tie-broken", "tie/distance/euclid", fmt.Sprintf("model %s, implementation %d (%v)", m, math.Float64bits(e1), e1), replay)
		} else {
			res.TracesValidated++
		}
		// ---- cosine
		g1, g2 := syzgydb.VerifAngular(a, b), syzgydb.VerifAngular(b, a)
		if math.IsNaN(g1) {
			sig := "cosine-nan"
			if rel == "identical" || rel == "parallel" {
				sig = "cosine-nan-parallel"
			}
			fail(sig, fmt.Sprintf("angular distance of %s vectors is NaN", rel))
		} else {
			if g1 < 0 || g1 > 1 {
				fail("cosine-out-of-range", fmt.Sprintf("angular = %v", g1))
			}
			if math.Float64bits(g1) != math.Float64bits(g2) {
				fail("cosine-asymmetric", fmt.Sprintf("d(a,b)=%v d(b,a)=%v", g1, g2))
			}
			if isZero(a) || isZero(b) {
				if g1 != 1 {
					fail("cosine-zero-vector", fmt.Sprintf("angular with a zero vector = %v", g1))
				}
			} else {
				switch rel {
				case "identical", "parallel":
					if g1 > 1e-7 {
						fail("cosine-self-nonzero", fmt.Sprintf("angular of %s vectors = %v", rel, g1))
					}
				case "antiparallel":
					if g1 < 1-1e-7 {
						fail("cosine-opposite-not-one", fmt.Sprintf("angular of opposite vectors = %v", g1))
					}
				}
				k := 0.25 + rng.Float64()*8
				if gs := syzgydb.VerifAngular(scale(a, k), b); math.Abs(gs-g1) > 1e-6 {
					fail("cosine-not-scale-invariant", fmt.Sprintf("d(a,b)=%v d(%v*a,b)=%v", g1, k, gs))
				}
			}
		}
		m = drv.Send(fmt.Sprintf("cosarg %s %s", bitsList(a), bitsList(b)))
		var want float64
		if m == "zero" {
			want = 1.0
		} else {
			var bits uint64
			fmt.Sscanf(m, "f %d", &bits)
			want = math.Acos(math.Float64frombits(bits)) / math.Pi
		}
		if math.Float64bits(want) != math.Float64bits(g1) && !(math.IsNaN(want) && math.IsNaN(g1)) {
			res.Violate("tie-broken", "tie/distance/angular", fmt.Sprintf("model arg %s -> %v, implementation %v", m, want, g1), replay)
		} else {
			res.TracesValidated++
		}
		if i < 2 {
			res.Sample(map[string]any{"a": a, "b": b, "euclid": e1, "angular": g1})
		}
	}
	// consequence: an exact search for a stored vector returns that document first with distance ~0
	for q := 0; q < 10; q++ {
		path := filepath.Join(o.Scratch, fmt.Sprintf("c06-%d.dat", q))
		os.Remove(path)
		dim := 1 + rng.Intn(6)
		metric := q % 2
		c, err := syzgydb.NewCollection(syzgydb.CollectionOptions{Name: path, DistanceMethod: metric, DimensionCount: dim, Quantization: quants[q%5], FileMode: syzgydb.CreateAndOverwrite})
		if err != nil {
			fatal("NewCollection: %v", err)
		}
		for id := 0; id < 30; id++ {
			v := genVec(rng, dim)
			for isZero(v) {
				v = genVec(rng, dim)
			}
			c.AddDocument(uint64(id), scale(v, 1/(1+math.Abs(v[0]))), nil)
		}
		for id := 0; id < 30; id++ {
			d, _ := c.GetDocument(uint64(id))
			if isZero(d.Vector) {
				continue
			}
			r := c.Search(syzgydb.SearchArgs{Vector: d.Vector, K: 1, Precision: "exact"})
			res.Evaluations++
			if len(r.Results) != 1 || math.IsNaN(r.Results[0].Distance) || r.Results[0].Distance > 1e-7 {
				res.Violate("impl-failure", "C06/self-query-not-first", fmt.Sprintf("exact search for the stored vector of document %d (metric %d) returned %+v", id, metric, r.Results),
					map[string]any{"vector": d.Vector, "metric": metric})
			}
		}
		c.Close()
		os.Remove(path)
	}
	res.Write(o.Out)
}

func numericC12(o *Opts) {
	res := NewResult("C12", "quantization", o.Seed, o.Tier)
	res.Rule = "every one of the 2^b codes, both float neighbours of every breakpoint between adjacent codes and points 1e-7 / 1e-5 / 1e-3 of a step on either side of it (where the nearest level is unambiguous) for b in {4,8,16} (exhaustive), out-of-range and special values, float32 grid samples for b=32 (all 2^32 values on the implementation in the thorough tier), " +
		"bit-packing round trips for dimensions 1..9 incl. odd dimensions under 4-bit packing; implementation vs Lean model on binary64, bit-exact; non-trivial = every evaluation; distinct = distinct (b, input)"
	rng := rand.New(rand.NewSource(o.Seed))
	drv := StartDriver()
	defer drv.Close()
	fail := func(sig, detail string, replay any) { res.Violate("impl-failure", "C12/"+sig, detail, replay) }
	checkQ := func(b int, x float64) uint64 {
		q := syzgydb.VerifQuantize(x, b)
		res.Evaluations++
		res.DistinctCase(fmt.Sprintf("%d/%x", b, math.Float64bits(x)))
		m := drv.Send(fmt.Sprintf("quant %d %d", b, math.Float64bits(x)))
		if m != fmt.Sprintf("code %d", q) {
			res.Violate("tie-broken", "tie/quantize", fmt.Sprintf("quantize(%v,%d): model %s, implementation %d", x, b, m, q), map[string]any{"bits": b, "x": x})
		} else {
			res.TracesValidated++
		}
		return q
	}
	for _, b := range []int{4, 8, 16} {
		M := uint64(1)<<b - 1
		step := 2 / float64(M)
		var prevX float64 = math.Inf(-1)
		var prevQ uint64
		mono := func(x float64, q uint64) {
			if x >= prevX && q < prevQ {
				fail("not-monotone", fmt.Sprintf("b=%d: quantize(%v)=%d < quantize(%v)=%d", b, x, q, prevX, prevQ), map[string]any{"bits": b, "x": x, "prev": prevX})
			}
			prevX, prevQ = x, q
		}
		for k := uint64(0); k <= M; k++ {
			d := syzgydb.VerifDequantize(k, b)
			md := drv.Send(fmt.Sprintf("dequant %d %d", b, k))
			if md != fmt.Sprintf("f %d", math.Float64bits(d)) {
				res.Violate("tie-broken", "tie/dequantize", fmt.Sprintf("dequantize(%d,%d): model %s, implementation %d", k, b, md, math.Float64bits(d)), map[string]any{"bits": b, "k": k})
			}
			// below the level's breakpoint, the level itself, above the breakpoint
			if k > 0 {
				mid := d - step/2
				for _, x := range []float64{math.Nextafter(mid, math.Inf(-1)), mid, math.Nextafter(mid, math.Inf(1))} {
					q := checkQ(b, x)
					mono(x, q)
					if q != k && q != k-1 {
						fail("not-nearest-level", fmt.Sprintf("b=%d: quantize(%v)=%d, adjacent levels are %d and %d", b, x, q, k-1, k), map[string]any{"bits": b, "x": x})
					}
					if e := math.Abs(syzgydb.VerifDequantize(q, b) - x); e > 1/float64(M)+math.Ldexp(1, -50) {
						fail("error-bound", fmt.Sprintf("b=%d: |dequantize(quantize(%v)) - x| = %v > 1/M", b, x, e), map[string]any{"bits": b, "x": x})
					}
				}
			}
			// a little further from the breakpoint than binary64 rounding of (x+1)/2*M can reach (about 1e-11 of a step
			// at b = 16), the nearest level is unambiguous: below the breakpoint it is k-1, above it k
			if k > 0 {
				mid := d - step/2
				for _, delta := range []float64{1e-3, 1e-5, 1e-7} {
					lo, hi := mid-delta*step, mid+delta*step
					for _, pr := range []struct {
						x    float64
						want uint64
					}{{lo, k - 1}, {hi, k}} {
						if b == 16 && delta != 1e-5 && k%16 != 0 && k < M-64 {
							continue // 16 bits: every breakpoint at one distance, every 16th (and the top 64) at all three
						}
						if q := checkQ(b, pr.x); q != pr.want {
							fail("not-nearest-level", fmt.Sprintf("b=%d: quantize(%v)=%d, but the nearest level is %d (the input lies %g of a step %s the breakpoint between levels %d and %d)", b, pr.x, q, pr.want, delta, map[bool]string{true: "below", false: "above"}[pr.want == k-1], k-1, k), map[string]any{"bits": b, "x": pr.x})
						}
					}
				}
			}
			q := checkQ(b, d)
			mono(d, q)
			if q != k {
				fail("not-idempotent", fmt.Sprintf("b=%d: quantize(dequantize(%d)) = %d", b, k, q), map[string]any{"bits": b, "k": k})
			}
		}
		for _, x := range []float64{-1, 1, -1.0000001, 1.0000001, -5, 5, math.MaxFloat64, -math.MaxFloat64, math.Inf(1), math.Inf(-1), 0, math.Copysign(0, -1), 1e-320} {
			q := checkQ(b, x)
			want := q
			if x >= 1 {
				want = M
			} else if x <= -1 {
				want = 0
			}
			if q != want {
				fail("not-clamped", fmt.Sprintf("b=%d: quantize(%v) = %d, want %d", b, x, q, want), map[string]any{"bits": b, "x": x})
			}
		}
		res.Hit(fmt.Sprintf("exhaustive:b%d", b))
	}
	// b = 32: nearest float32; b = 64: identity
	n32 := 200000
	if o.Tier == "thorough" {
		n32 = 3000000
	}
	for i := 0; i < n32; i++ {
		var x float64
		switch rng.Intn(4) {
		case 0:
			x = float64(math.Float32frombits(rng.Uint32()))
		case 1: // halfway between two float32 values
			f := math.Float32frombits(rng.Uint32() & 0x7f7fffff)
			x = (float64(f) + float64(math.Nextafter32(f, float32(math.Inf(1))))) / 2
		default:
			x = math.Float64frombits(rng.Uint64())
		}
		if math.IsNaN(x) {
			continue
		}
		res.Evaluations++
		q := syzgydb.VerifQuantize(x, 32)
		if uint32(q) != math.Float32bits(float32(x)) || q>>32 != 0 {
			fail("b32-not-nearest-float32", fmt.Sprintf("quantize(%v,32) = %x", x, q), map[string]any{"x": x})
		}
		d := syzgydb.VerifDequantize(q, 32)
		if math.Float64bits(d) != math.Float64bits(float64(float32(x))) {
			fail("b32-roundtrip", fmt.Sprintf("dequantize(quantize(%v,32)) = %v", x, d), map[string]any{"x": x})
		}
		if syzgydb.VerifQuantize(d, 32) != q {
			fail("b32-not-idempotent", fmt.Sprintf("x=%v", x), map[string]any{"x": x})
		}
		if i%50 == 0 {
			m := drv.Send(fmt.Sprintf("tof32 %d", math.Float64bits(x)))
			if m != fmt.Sprintf("f %d b32 %d", math.Float64bits(d), q) {
				res.Violate("tie-broken", "tie/float32", fmt.Sprintf("x=%v model %s implementation f %d b32 %d", x, m, math.Float64bits(d), q), map[string]any{"x": x})
			} else {
				res.TracesValidated++
			}
		}
		if q64 := syzgydb.VerifQuantize(x, 64); q64 != math.Float64bits(x) || math.Float64bits(syzgydb.VerifDequantize(q64, 64)) != math.Float64bits(x) {
			fail("b64-not-exact", fmt.Sprintf("x=%v", x), map[string]any{"x": x})
		}
	}
	// bit packing: components independent, every dimension incl. odd ones
	for it := 0; it < 4000; it++ {
		b := quants[rng.Intn(5)]
		dim := 1 + rng.Intn(9)
		v := make([]float64, dim)
		codes := make([]uint64, dim)
		for i := range v {
			v[i] = rng.Float64()*2.4 - 1.2
			if rng.Intn(4) == 0 { // values the encoder might treat specially: zeros, the ends, exact levels, midpoints
				v[i] = []float64{0, math.Copysign(0, -1), 1, -1, 0.5, -0.5, 1.5, -1.5, 1e-300, -1e-300, 1.0 / 15, 1.0 / 255, 1.0 / 65535, math.Nextafter(0, 1), math.Nextafter(0, -1)}[rng.Intn(15)]
			}
			codes[i] = syzgydb.VerifQuantize(v[i], b)
		}
		enc := syzgydb.VerifEncodeVector(v, b)
		res.Evaluations++
		res.DistinctCase(fmt.Sprintf("pack/%d/%d/%d", b, dim, it))
		if len(enc) != syzgydb.VerifGetVectorSize(b, dim) {
			fail("vector-size", fmt.Sprintf("b=%d dim=%d: encoded %d bytes, getVectorSize %d", b, dim, len(enc), syzgydb.VerifGetVectorSize(b, dim)), nil)
		}
		dec := syzgydb.VerifDecodeVector(enc, dim, b)
		for i := range v {
			if math.Float64bits(dec[i]) != math.Float64bits(syzgydb.VerifDequantize(codes[i], b)) {
				fail("packing-roundtrip", fmt.Sprintf("b=%d dim=%d component %d: stored %v, read %v", b, dim, i, syzgydb.VerifDequantize(codes[i], b), dec[i]), map[string]any{"bits": b, "v": v})
			}
		}
		m := drv.Send(fmt.Sprintf("enc %d %s", b, joinU(codes)))
		if m != "bytes "+hexW(enc) {
			res.Violate("tie-broken", "tie/encode-vector", fmt.Sprintf("b=%d codes=%v model %s implementation %s", b, codes, m, hexW(enc)), nil)
		}
		m = drv.Send(fmt.Sprintf("dec %d %d %s", b, dim, hexW(enc)))
		if m != "codes "+joinU(codes) {
			res.Violate("tie-broken", "tie/decode-vector", fmt.Sprintf("b=%d model %s implementation %v", b, m, codes), nil)
		} else {
			res.TracesValidated++
		}
		// independence: changing one component changes only its own code
		j := rng.Intn(dim)
		v2 := append([]float64{}, v...)
		v2[j] = -v2[j]
		dec2 := syzgydb.VerifDecodeVector(syzgydb.VerifEncodeVector(v2, b), dim, b)
		for i := range v {
			if i != j && math.Float64bits(dec2[i]) != math.Float64bits(dec[i]) {
				fail("components-not-independent", fmt.Sprintf("b=%d dim=%d: changing component %d changed component %d", b, dim, j, i), map[string]any{"bits": b, "v": v})
			}
		}
	}
	res.Sample(map[string]any{"b": 8, "code": 200, "dequantized": syzgydb.VerifDequantize(200, 8)})
	res.Write(o.Out)
}

func init() {
	subcommands["numeric-C06"] = numericC06
	subcommands["numeric-C12"] = numericC12
}
