package main

import (
	"encoding/json"
	"fmt"
	"math"
	"os"
	"sort"
)

// Violation is one finding of a correspondence/oracle run.
type Violation struct {
	Kind      string `json:"kind"`      // impl-failure | tie-broken
	Signature string `json:"signature"` // stable identifier of the failing shape (known-findings match on it)
	Detail    string `json:"detail"`
	Replay    any    `json:"replay"`
}

type Result struct {
	Property        string         `json:"property"`
	Sub             string         `json:"sub"`
	Seed            int64          `json:"seed"`
	Tier            string         `json:"tier"`
	Evaluations     int            `json:"evaluations"`
	Distinct        int            `json:"distinct_nontrivial"`
	Rule            string         `json:"rule"`
	Samples         []any          `json:"samples"`
	Histogram       map[string]int `json:"histogram"`
	TracesValidated int            `json:"traces_validated_against_impl"`
	Violations      []Violation    `json:"violations"`
	Notes           []string       `json:"notes,omitempty"`
	distinct        map[string]bool
}

func NewResult(prop, sub string, seed int64, tier string) *Result {
	return &Result{Property: prop, Sub: sub, Seed: seed, Tier: tier, Histogram: map[string]int{}, distinct: map[string]bool{}}
}

func (r *Result) Hit(k string)          { r.Histogram[k]++ }
func (r *Result) DistinctCase(k string) { r.distinct[k] = true }
func (r *Result) Sample(s any) {
	if len(r.Samples) < 5 {
		r.Samples = append(r.Samples, s)
	}
}
func (r *Result) Violate(kind, sig, detail string, replay any) {
	// keep at most a handful of each signature
	n := 0
	for _, v := range r.Violations {
		if v.Signature == sig {
			n++
		}
	}
	if n >= 3 {
		return
	}
	r.Violations = append(r.Violations, Violation{Kind: kind, Signature: sig, Detail: detail, Replay: jsonSafe(replay)})
}

// HasKind reports whether a violation of that kind has been recorded.
func (r *Result) HasKind(kind string) bool {
	for _, v := range r.Violations {
		if v.Kind == kind {
			return true
		}
	}
	return false
}

// jsonSafe makes a replay payload encodable: encoding/json refuses NaN and the infinities, so a
// non-finite float becomes its bit pattern as a string.
func jsonSafe(v any) any {
	switch x := v.(type) {
	case float64:
		if math.IsNaN(x) || math.IsInf(x, 0) {
			return fmt.Sprintf("float64bits:%#016x (%v)", math.Float64bits(x), x)
		}
		return x
	case []float64:
		out := make([]any, len(x))
		for i, e := range x {
			out[i] = jsonSafe(e)
		}
		return out
	case map[string]any:
		out := make(map[string]any, len(x))
		for k, e := range x {
			out[k] = jsonSafe(e)
		}
		return out
	case []any:
		out := make([]any, len(x))
		for i, e := range x {
			out[i] = jsonSafe(e)
		}
		return out
	}
	if _, err := json.Marshal(v); err != nil {
		return fmt.Sprintf("%+v", v)
	}
	return v
}

func (r *Result) Write(path string) {
	r.Distinct = len(r.distinct)
	keys := make([]string, 0, len(r.Histogram))
	for k := range r.Histogram {
		keys = append(keys, k)
	}
	sort.Strings(keys)
	b, err := json.MarshalIndent(r, "", " ")
	if err != nil {
		fatal("encode result: %v", err)
	}
	if path == "" || path == "-" {
		os.Stdout.Write(b)
		os.Stdout.WriteString("\n")
		return
	}
	if err := os.WriteFile(path, b, 0644); err != nil {
		fatal("write result: %v", err)
	}
}
