package main

import (
	"bytes"
	"encoding/json"
	"fmt"
	"math"
	"math/rand"
	"os"
	"path/filepath"
	"sort"
	"strings"

	"github.com/smhanov/syzgydb"
)

// Op is one step of a storage history; it is what replay files contain.
type Op struct {
	K        string    `json:"k"`
	ID       uint64    `json:"id,omitempty"`
	Vec      []float64 `json:"vec,omitempty"`
	MetaLen  int       `json:"meta_len,omitempty"`
	MetaSeed int64     `json:"meta_seed,omitempty"`
	Mode     int       `json:"mode,omitempty"`
	Metric   int       `json:"metric,omitempty"`
	Dim      int       `json:"dim,omitempty"`
	Quant    int       `json:"quant,omitempty"`
	Why      string    `json:"why,omitempty"`
}

func genMeta(seed int64, n int) []byte {
	r := rand.New(rand.NewSource(seed))
	b := make([]byte, n)
	r.Read(b)
	return b
}

type specDoc struct {
	meta  []byte
	codes []uint64
}

type storeRun struct {
	prop      string
	res       *Result
	real      *RealColl
	drv       *Driver
	spec      map[uint64]*specDoc
	ops       []Op
	rng       *rand.Rand
	ro        bool // collection currently opened read-only
	cfg       [3]int
	dead      bool
	modelDead bool
	images    [][]byte
	imgTags   []string
	c07       *c07ctx
	journal   *os.File
	scen      int
}

func (s *storeRun) replay() any {
	return map[string]any{"scenario": s.scen, "seed": s.res.Seed, "ops": s.ops}
}

// once model and implementation have diverged the scenario goes on with the implementation alone:
// the property oracles keep looking for a concrete failing input
func (s *storeRun) msend(cmd string) string {
	if s.modelDead {
		return "model-off"
	}
	return s.drv.Send(cmd)
}
func (s *storeRun) msendNew(mode, metric, dim, quant int, path string) string {
	if s.modelDead {
		return "model-off"
	}
	return s.drv.SendNew(mode, metric, dim, quant, path)
}
func (s *storeRun) mdiff(m, r string) bool { return !s.modelDead && m != r }

func (s *storeRun) tie(what, model, real string) {
	s.modelDead = true
	s.res.Violate("tie-broken", "tie/store/"+what,
		fmt.Sprintf("model and implementation disagree on %s: model=%s impl=%s", what, abbreviate(model, 400), abbreviate(real, 400)), s.replay())
}

func (s *storeRun) fail(prop, sig, detail string) {
	if prop != s.prop && s.prop != "ALL" {
		// a property other than the one being checked: recorded as a note only
		s.res.Notes = append(s.res.Notes, prop+": "+detail)
		return
	}
	s.res.Violate("impl-failure", prop+"/"+sig, detail, s.replay())
}

func sortedIDs(m map[uint64]*specDoc) []uint64 {
	ids := make([]uint64, 0, len(m))
	for k := range m {
		ids = append(ids, k)
	}
	sort.Slice(ids, func(i, j int) bool { return ids[i] < ids[j] })
	return ids
}

func eqU(a, b []uint64) bool {
	if len(a) != len(b) {
		return false
	}
	for i := range a {
		if a[i] != b[i] {
			return false
		}
	}
	return true
}

func codesStr(c []uint64) string { return joinU(c) }

// spanSize is the on-disk size of a record before padding (spanfile.go grammar).
func l7(n int) int {
	switch {
	case n < 0x7f:
		return 1
	case n < 0x3fff:
		return 2
	case n < 0x1fffff:
		return 3
	case n < 0xfffffff:
		return 4
	}
	return 5
}
func spanSize(seq int, ridLen, mdLen, vecLen int) int {
	return 8 + l7(seq) + l7(ridLen) + ridLen + 1 + 1 + l7(mdLen) + mdLen + 1 + l7(vecLen) + vecLen + 4
}

func (s *storeRun) checkState(after string) {
	if s.dead || s.real.C == nil {
		return
	}
	m := s.msend("st")
	r := s.real.St()
	if s.mdiff(m, r) {
		s.tie("state after "+after, m, r)
	}
	if !s.modelDead {
		if !s.modelDead {
			s.res.TracesValidated++
		}
	}
	if s.prop == "C09" || s.prop == "ALL" {
		sf := s.real.C.VerifSpanFile()
		if err := checkWellFormed(sf.VerifFileBytes(), sf.VerifIndex(), sf.VerifFreeMap()); err != nil {
			s.fail("C09", "malformed-chain", fmt.Sprintf("after %s the data file is not a well-formed span chain: %v", after, err))
		}
	}
}

// checkAllDocs compares every live document of the implementation with the spec oracle.
func (s *storeRun) checkAllDocs(prop, when string) {
	_, ids := s.real.IDs()
	want := sortedIDs(s.spec)
	if !eqU(ids, want) {
		s.fail(prop, "ids-mismatch", fmt.Sprintf("%s: GetAllIDs=%v want %v", when, ids, want))
	}
	_, n := s.real.Count()
	if n != len(want) {
		s.fail(prop, "count-mismatch", fmt.Sprintf("%s: GetDocumentCount=%d want %d", when, n, len(want)))
	}
	for _, id := range want {
		_, d := s.real.Get(id)
		sd := s.spec[id]
		if d == nil {
			s.fail(prop, "doc-lost", fmt.Sprintf("%s: document %d is not readable", when, id))
			continue
		}
		if !bytes.Equal(d.Metadata, sd.meta) || !eqU(s.real.Codes(d.Vector), sd.codes) {
			s.fail(prop, "doc-altered", fmt.Sprintf("%s: document %d differs from its last write", when, id))
		}
	}
}

func (s *storeRun) do(op Op) {
	if s.dead {
		return
	}
	s.ops = append(s.ops, op)
	if s.journal != nil {
		b, _ := json.Marshal(op)
		fmt.Fprintf(s.journal, "scenario %d op %d %s\n", s.scen, len(s.ops)-1, abbreviate(string(b), 300))
	}
	s.res.Evaluations++
	s.res.Hit("op:" + op.K)
	switch op.K {
	case "new", "reopen":
		if op.K == "reopen" {
			m := s.msend("close")
			r := s.real.Close()
			if s.mdiff(m, r) {
				s.tie("close", m, r)
			}
		}
		m := s.msendNew(op.Mode, op.Metric, op.Dim, op.Quant, s.real.Path)
		r := s.real.New(op.Mode, op.Metric, op.Dim, op.Quant)
		if s.mdiff(strings.Fields(m)[0], r) {
			s.tie(op.K, m, r)
		}
		s.res.Hit(fmt.Sprintf("open:mode%d:%s", op.Mode, r))
		if r != "ok" {
			s.dead = true // nothing more to do with a collection that did not open
			if op.K == "reopen" && op.Mode != 3 {
				s.fail("C02", "reopen-failed", fmt.Sprintf("reopen with mode %d failed (%s)", op.Mode, r))
			}
			return
		}
		s.ro = op.Mode == 2
		if op.K == "new" || op.Mode == 3 {
			s.spec = map[uint64]*specDoc{}
			q := op.Quant
			if q == 0 {
				q = 64
			}
			s.cfg = [3]int{op.Metric, op.Dim, q}
		}
		o := s.real.Opt
		if o.DistanceMethod != s.cfg[0] || o.DimensionCount != s.cfg[1] || o.Quantization != s.cfg[2] {
			s.fail("C02", "options-changed", fmt.Sprintf("after reopen options are %d/%d/%d, created with %v", o.DistanceMethod, o.DimensionCount, o.Quantization, s.cfg))
		}
		s.checkState(op.K)
		if op.K == "reopen" {
			s.checkAllDocs("C02", fmt.Sprintf("after reopen (mode %d)", op.Mode))
			s.res.DistinctCase(fmt.Sprintf("reopen:%d:%d", op.Mode, len(s.spec)))
		}
	case "add":
		md := genMeta(op.MetaSeed, op.MetaLen)
		codes := s.real.Codes(op.Vec)
		sf := s.real.C.VerifSpanFile()
		var before []byte
		var need int
		if s.prop == "C09" || s.prop == "ALL" {
			before = sf.VerifFileBytes()
			rid := fmt.Sprintf("%d", op.ID)
			need = spanSize(int(sf.VerifSeq()), len(rid), len(md), len(syzgydb.VerifEncodeVector(op.Vec, s.cfg[2])))
		}
		s.captureStart()
		m := s.msend(fmt.Sprintf("add %d %s %s", op.ID, codesStr(codes), hexW(md)))
		r := s.real.Add(op.ID, op.Vec, md)
		s.captureEnd()
		if s.mdiff(m, r) {
			s.tie("add", m, r)
		}
		if r == "ok" {
			prev := s.spec[op.ID]
			s.spec[op.ID] = &specDoc{meta: md, codes: codes}
			s.growthOracle(before, need, "add")
			s.checkState("add")
			s.afterMutation(op, prev)
		}
		s.res.DistinctCase(fmt.Sprintf("add:%d:%d", op.MetaLen, len(op.Vec)))
	case "upd":
		md := genMeta(op.MetaSeed, op.MetaLen)
		_, live := s.spec[op.ID]
		var hb uint64
		if !live {
			hb = fnv1a(s.real.C.VerifSpanFile().VerifFileBytes())
		}
		sf := s.real.C.VerifSpanFile()
		var before []byte
		var need int
		if live && (s.prop == "C09" || s.prop == "ALL") {
			before = sf.VerifFileBytes()
			rid := fmt.Sprintf("%d", op.ID)
			need = spanSize(int(sf.VerifSeq()), len(rid), len(md), syzgydb.VerifGetVectorSize(s.cfg[2], s.cfg[1]))
		}
		s.captureStart()
		m := s.msend(fmt.Sprintf("upd %d %s", op.ID, hexW(md)))
		r := s.real.Upd(op.ID, md)
		s.captureEnd()
		if s.mdiff(m, r) {
			s.tie("upd", m, r)
		}
		if live && r != "ok" {
			s.fail("C01", "update-live-failed", fmt.Sprintf("UpdateDocument(%d) of a live document returned %s", op.ID, r))
		}
		if !live {
			if r != "err" {
				s.fail("C01", "update-dead-accepted", fmt.Sprintf("UpdateDocument(%d) of a non-live id returned %s", op.ID, r))
			}
			if fnv1a(s.real.C.VerifSpanFile().VerifFileBytes()) != hb {
				s.fail("C01", "failed-op-changed-file", fmt.Sprintf("failed UpdateDocument(%d) changed the data file", op.ID))
			}
		}
		if live && r == "ok" {
			prev := s.spec[op.ID]
			s.spec[op.ID] = &specDoc{meta: md, codes: prev.codes}
			s.growthOracle(before, need, "upd")
			s.checkState("upd")
			s.afterMutation(op, prev)
		} else {
			s.checkState("upd")
		}
	case "del":
		_, live := s.spec[op.ID]
		hb := fnv1a(s.real.C.VerifSpanFile().VerifFileBytes())
		s.captureStart()
		m := s.msend(fmt.Sprintf("del %d", op.ID))
		r := s.real.Del(op.ID)
		s.captureEnd()
		if s.mdiff(m, r) {
			s.tie("del", m, r)
		}
		if live && r != "ok" {
			s.fail("C01", "remove-live-failed", fmt.Sprintf("removal of live document %d returned %s", op.ID, r))
		}
		if !live {
			if r != "err" {
				s.fail("C01", "remove-dead-accepted", fmt.Sprintf("removal of non-live id %d returned %s", op.ID, r))
			}
			if fnv1a(s.real.C.VerifSpanFile().VerifFileBytes()) != hb {
				s.fail("C01", "failed-op-changed-file", fmt.Sprintf("failed removal of %d changed the data file", op.ID))
			}
		}
		if live && r == "ok" {
			prev := s.spec[op.ID]
			delete(s.spec, op.ID)
			s.checkState("del")
			s.afterMutation(op, prev)
		} else {
			s.checkState("del")
		}
	case "get":
		m := s.msend(fmt.Sprintf("get %d", op.ID))
		r, d := s.real.Get(op.ID)
		if s.mdiff(m, r) {
			s.tie("get", m, r)
		}
		if !s.modelDead {
			s.res.TracesValidated++
		}
		sd, live := s.spec[op.ID]
		if live {
			if d == nil {
				s.fail("C01", "get-live-failed", fmt.Sprintf("GetDocument(%d) of a live document returned %s", op.ID, r))
			} else if !bytes.Equal(d.Metadata, sd.meta) {
				s.fail("C01", "metadata-not-last-write", fmt.Sprintf("GetDocument(%d) metadata differs from the last write (%d vs %d bytes)", op.ID, len(d.Metadata), len(sd.meta)))
			} else if !eqU(s.real.Codes(d.Vector), sd.codes) {
				s.fail("C01", "vector-not-last-write", fmt.Sprintf("GetDocument(%d) vector differs from the stored quantization of the last write", op.ID))
			}
		} else if r != "err" {
			s.fail("C01", "get-dead-succeeded", fmt.Sprintf("GetDocument(%d) of a non-live id returned %s", op.ID, abbreviate(r, 80)))
		}
	case "ids":
		m := s.msend("ids")
		r, ids := s.real.IDs()
		if s.mdiff(m, r) {
			s.tie("ids", m, r)
		}
		if !s.modelDead {
			s.res.TracesValidated++
		}
		if want := sortedIDs(s.spec); !eqU(ids, want) {
			s.fail("C01", "ids-mismatch", fmt.Sprintf("GetAllIDs=%v want %v", ids, want))
		}
	case "count":
		m := s.msend("count")
		r, n := s.real.Count()
		if s.mdiff(m, r) {
			s.tie("count", m, r)
		}
		if !s.modelDead {
			s.res.TracesValidated++
		}
		if n != len(s.spec) {
			s.fail("C01", "count-mismatch", fmt.Sprintf("GetDocumentCount=%d want %d", n, len(s.spec)))
		}
	}
}

// growthOracle: C09 growth clause, evaluated on the implementation's bytes with the
// independent walker: the file grows iff no maximal FREE run can hold the record.
func (s *storeRun) growthOracle(before []byte, need int, what string) {
	if before == nil {
		return
	}
	spans, err := walkFile(before)
	if err != nil {
		return // reported by checkWellFormed
	}
	fits := false
	for _, r := range freeRuns(spans) {
		if r[1] >= need {
			fits = true
		}
	}
	after := len(s.real.C.VerifSpanFile().VerifFileBytes())
	grew := after > len(before)
	if grew {
		s.res.Hit("grow")
	} else {
		s.res.Hit("reuse")
	}
	if grew && fits {
		s.fail("C09", "grew-although-free-run-fits", fmt.Sprintf("%s of a %d-byte record grew the file %d -> %d although a free run could hold it", what, need, len(before), after))
	}
	if !grew && !fits {
		s.fail("C09", "no-growth-without-space", fmt.Sprintf("%s of a %d-byte record did not grow the file although no free run fits", what, need))
	}
}

// ---- generation ----

var boundaryLens = []int{0, 1, 2, 125, 126, 127, 128, 129, 4000, 4090, 4096, 4200, 9000, 16381, 16382, 16383, 16384, 16385}

func (s *storeRun) pickID(fresh bool) uint64 {
	pool := 8 + s.scen%57
	extremes := []uint64{0, math.MaxUint64, math.MaxUint32, 1 << 63}
	if fresh {
		for i := 0; i < 20; i++ {
			var id uint64
			if s.rng.Intn(10) == 0 {
				id = extremes[s.rng.Intn(len(extremes))]
			} else {
				id = uint64(s.rng.Intn(pool * 3))
			}
			if _, ok := s.spec[id]; !ok {
				return id
			}
		}
		return s.rng.Uint64()
	}
	ids := sortedIDs(s.spec)
	if len(ids) == 0 {
		return uint64(s.rng.Intn(pool))
	}
	return ids[s.rng.Intn(len(ids))]
}

func (s *storeRun) randVec() []float64 {
	v := make([]float64, s.cfg[1])
	for i := range v {
		switch s.rng.Intn(8) {
		case 0:
			v[i] = []float64{-1, 1, 0, -1.5, 1.5, 0.5}[s.rng.Intn(6)]
		default:
			v[i] = s.rng.Float64()*2.4 - 1.2
		}
	}
	return v
}

// metaLenFor chooses a metadata length; mostly aimed at a remainder class of a current free run.
func (s *storeRun) metaLenFor(id uint64) (int, string) {
	sf := s.real.C.VerifSpanFile()
	vecLen := syzgydb.VerifGetVectorSize(s.cfg[2], s.cfg[1])
	ridLen := len(fmt.Sprintf("%d", id))
	seq := int(sf.VerifSeq())
	switch k := s.rng.Intn(12); {
	case k >= 10:
		// force a file growth whose leftover behind the new span is 0, 1..14, 15 or more bytes:
		// the growth amount is max(4096, size, 5% of the file), so aim just below the quantum
		// (or below 5% of the file) with a record no free region can hold
		maxFree := 0
		for _, r := range sf.VerifFreeMap() {
			if r[1] > maxFree {
				maxFree = r[1]
			}
		}
		quantum := 4096
		if five := int(float64(len(sf.VerifFileBytes())) * 0.05); five > quantum {
			quantum = five
		}
		rem := []int{0, 1, 3, 4, 7, 8, 14, 15, 16, 40}[s.rng.Intn(10)]
		target := quantum - rem
		if target > maxFree && target < 400000 {
			for _, guess := range []int{1, 2, 3} {
				md := target - (spanSize(seq, ridLen, 0, vecLen) - 1) - guess
				if md >= 0 && l7(md) == guess && spanSize(seq, ridLen, md, vecLen) == target {
					return md, fmt.Sprintf("grow:rem%d", rem)
				}
			}
		}
	case k < 5:
		fm := sf.VerifFreeMap()
		if len(fm) > 0 {
			reg := fm[s.rng.Intn(len(fm))]
			rem := []int{0, 1, 7, 14, 15, 16, 17, 40}[s.rng.Intn(8)]
			target := reg[1] - rem
			if reg[1] > 300000 {
				break
			}
			for _, guess := range []int{1, 2, 3} {
				md := target - (spanSize(seq, ridLen, 0, vecLen) - 1) - guess
				if md >= 0 && l7(md) == guess && spanSize(seq, ridLen, md, vecLen) == target {
					return md, fmt.Sprintf("fit:rem%d", rem)
				}
			}
		}
	case k < 7:
		max := len(boundaryLens)
		if s.res.Tier == "quick" && s.rng.Intn(4) != 0 {
			max = 9
		}
		return boundaryLens[s.rng.Intn(max)], "boundary"
	}
	return s.rng.Intn(200), "small"
}

// options a caller may pass when reopening an existing file: whatever they are — also values no collection could be
// created with — the header decides (C02: "whatever options are passed when reopening")
var reopenQuants = []int{0, 4, 8, 16, 32, 64, 0, 4, 8, 16, 32, 64, 12, 1, 128, 7}
var reopenMetrics = []int{0, 1, 0, 1, 0, 1, 2, 7}
var reopenDims = []int{0, 1, 2, 3, 4, 5, 6, 7, 8, 1000}

func (s *storeRun) genOp() Op {
	if s.ro {
		switch s.rng.Intn(4) {
		case 0:
			return Op{K: "ids"}
		case 1:
			return Op{K: "count"}
		case 2:
			return Op{K: "get", ID: s.pickID(s.rng.Intn(4) == 0)}
		default:
			return Op{K: "reopen", Mode: s.rng.Intn(2), Metric: reopenMetrics[s.rng.Intn(len(reopenMetrics))], Dim: reopenDims[s.rng.Intn(len(reopenDims))], Quant: reopenQuants[s.rng.Intn(len(reopenQuants))]}
		}
	}
	reopenEvery := 25
	if s.prop == "C02" {
		reopenEvery = 1 + s.scen%7
	}
	k := s.rng.Intn(100)
	if s.rng.Intn(reopenEvery) == 0 && k < 60 {
		mode := []int{0, 1, 1, 2, 0, 1}[s.rng.Intn(6)]
		if s.rng.Intn(60) == 0 {
			mode = 3
		}
		op := Op{K: "reopen", Mode: mode, Metric: reopenMetrics[s.rng.Intn(len(reopenMetrics))], Dim: reopenDims[s.rng.Intn(len(reopenDims))], Quant: reopenQuants[s.rng.Intn(len(reopenQuants))]}
		if mode == 3 {
			op.Metric, op.Dim, op.Quant = s.cfg[0], s.cfg[1], s.cfg[2]
		}
		return op
	}
	// phases: occasionally delete everything, then refill
	if len(s.spec) > 0 && s.rng.Intn(150) == 0 {
		return Op{K: "delall"}
	}
	switch {
	case k < 30:
		id := s.pickID(true)
		n, why := s.metaLenFor(id)
		return Op{K: "add", ID: id, Vec: s.randVec(), MetaLen: n, MetaSeed: s.rng.Int63(), Why: why}
	case k < 45:
		id := s.pickID(false)
		n, why := s.metaLenFor(id)
		return Op{K: "add", ID: id, Vec: s.randVec(), MetaLen: n, MetaSeed: s.rng.Int63(), Why: "overwrite:" + why}
	case k < 60:
		id := s.pickID(s.rng.Intn(8) == 0)
		n, why := s.metaLenFor(id)
		return Op{K: "upd", ID: id, MetaLen: n, MetaSeed: s.rng.Int63(), Why: why}
	case k < 75:
		return Op{K: "del", ID: s.pickID(s.rng.Intn(6) == 0)}
	case k < 90:
		return Op{K: "get", ID: s.pickID(s.rng.Intn(5) == 0)}
	case k < 95:
		return Op{K: "ids"}
	default:
		return Op{K: "count"}
	}
}

func (s *storeRun) runGenerated(nops int) {
	for i := 0; i < nops && !s.dead; i++ {
		op := s.genOp()
		if op.K == "delall" {
			for _, id := range sortedIDs(s.spec) {
				s.do(Op{K: "del", ID: id, Why: "delete-all"})
			}
			s.res.Hit("phase:delete-all")
			continue
		}
		if op.Why != "" {
			s.res.Hit("size:" + op.Why)
		}
		s.do(op)
	}
}

func newStoreRun(prop string, res *Result, o *Opts, scen int) *storeRun {
	path := filepath.Join(o.Scratch, fmt.Sprintf("s%d.dat", scen))
	os.Remove(path)
	s := &storeRun{prop: prop, res: res, real: &RealColl{Path: path}, drv: StartDriver(), spec: map[uint64]*specDoc{},
		rng: rand.New(rand.NewSource(o.Seed*1000003 + int64(scen))), scen: scen}
	if o.Journal != "" {
		s.journal, _ = os.OpenFile(o.Journal, os.O_CREATE|os.O_WRONLY|os.O_APPEND, 0644)
	}
	return s
}

func (s *storeRun) finish() {
	if s.real.C != nil {
		s.real.Close()
	}
	s.drv.Close()
	os.Remove(s.real.Path)
	if s.journal != nil {
		s.journal.Close()
	}
}

var quants = []int{4, 8, 16, 32, 64}

func storeMain(prop string) func(o *Opts) {
	return func(o *Opts) {
		res := NewResult(prop, "store", o.Seed, o.Tier)
		res.Rule = "state-aware random histories (add/overwrite/update/remove/get/ids/count/reopen/delete-all) on the real collection and on the Lean model; " +
			"a case is one executed operation; distinct = distinct (op kind, metadata length, dimension) resp. (reopen mode, live count); " +
			"after every operation the whole data file (length+FNV-1a), index, free map and sequence number are compared byte-exactly with the model"
		if o.Replay != "" {
			replayStore(prop, res, o)
			res.Write(o.Out)
			return
		}
		scen, nops := 10, 300
		if o.Tier == "thorough" {
			scen, nops = 40, 3000
		}
		if o.Scenarios > 0 {
			scen = o.Scenarios
		}
		if o.Ops > 0 {
			nops = o.Ops
		}
		if (prop == "C01" || prop == "C09" || prop == "ALL") && o.Start == 0 {
			codecSweep(prop, res, o)
		}
		for i := o.Start; i < o.Start+scen; i++ {
			s := newStoreRun(prop, res, o, i)
			if prop == "C07" {
				s.c07 = newC07(o, res)
			}
			q := quants[i%5]
			metric := (i / 5) % 2
			dim := 1 + s.rng.Intn(9)
			s.do(Op{K: "new", Mode: []int{0, 3}[s.rng.Intn(2)], Metric: metric, Dim: dim, Quant: q})
			s.res.Hit(fmt.Sprintf("config:q%d:m%d", q, metric))
			s.runGenerated(nops)
			if s.modelDead && !s.dead && len(res.Violations) > 0 && !res.HasKind("impl-failure") {
				// model and implementation have diverged and no property oracle has fired yet: go on with the
				// implementation alone for a while (the generator keeps aiming at growth and fit boundaries), then
				// read every document back — the search for a concrete failing input
				s.res.Hit("hunt-after-divergence")
				extra := 4 * nops
				if extra > 2400 {
					extra = 2400
				}
				s.runGenerated(extra)
				if !s.dead && s.real.C != nil {
					hp := prop
					if hp == "ALL" {
						hp = "C01"
					}
					s.checkAllDocs(hp, "at the end of the search after a divergence")
				}
			}
			if len(s.ops) > 0 && i == o.Start {
				n := len(s.ops)
				if n > 6 {
					n = 6
				}
				res.Sample(map[string]any{"scenario": i, "first_ops": s.ops[:n]})
			}
			if s.c07 != nil {
				s.c07.finish()
			}
			s.finish()
		}
		res.Write(o.Out)
	}
}

func replayStore(prop string, res *Result, o *Opts) {
	b, err := os.ReadFile(o.Replay)
	if err != nil {
		fatal("replay: %v", err)
	}
	var rp struct {
		Replay struct {
			Scenario int   `json:"scenario"`
			Seed     int64 `json:"seed"`
			Ops      []Op  `json:"ops"`
		} `json:"replay"`
	}
	if err := json.Unmarshal(b, &rp); err != nil {
		fatal("replay: %v", err)
	}
	s := newStoreRun(prop, res, o, rp.Replay.Scenario)
	if prop == "C07" {
		s.c07 = newC07(o, res)
	}
	for _, op := range rp.Replay.Ops {
		s.do(op)
	}
	if s.c07 != nil {
		s.c07.finish()
	}
	s.finish()
}

func init() {
	for _, p := range []string{"C01", "C02", "C09", "C07"} {
		subcommands["store-"+p] = storeMain(p)
	}
	subcommands["store-ALL"] = storeMain("ALL")
}

// codecSweep: the 7-bit length code on the implementation, exhaustively below 2^22 and around every
// higher power of 2^7: the number of bytes written must be the number lengthOf7Code announces (the
// span length field is computed from it) and the code must read back. Every value at which either
// function changes its answer is then used as a metadata length of a real document (and compared
// with the model byte-exactly), so that a moved boundary has a failing input at the API level.
func codecSweep(prop string, res *Result, o *Opts) {
	var boundaries []uint64
	check := func(n uint64) {
		w := syzgydb.VerifWrite7Code(n)
		l := syzgydb.VerifLengthOf7Code(n)
		v, used, err := syzgydb.VerifRead7Code(append(w, 0xAA), 0)
		res.Evaluations++
		if uint64(len(w)) != l || err != nil || v != n || used != len(w) {
			res.Violate("impl-failure", "C01/7code-length-or-roundtrip", fmt.Sprintf("n=%d: write7Code wrote %d bytes, lengthOf7Code says %d, read back %d (%d bytes, err=%v)", n, len(w), l, v, used, err),
				map[string]any{"n": n})
		}
	}
	prevW, prevL := 0, uint64(0)
	for n := uint64(0); n < 1<<22; n++ {
		w := len(syzgydb.VerifWrite7Code(n))
		l := syzgydb.VerifLengthOf7Code(n)
		if n > 0 && (w != prevW || l != prevL) {
			boundaries = append(boundaries, n-1, n)
		}
		prevW, prevL = w, l
		if uint64(w) != l {
			check(n)
		}
	}
	res.Evaluations += 1 << 22
	for k := uint(28); k <= 56; k += 7 {
		for d := int64(-3); d <= 3; d++ {
			check(uint64(int64(1)<<k + d))
		}
	}
	res.Hit(fmt.Sprintf("codec-sweep:boundaries=%d", len(boundaries)))
	// documents whose metadata length sits on each boundary
	s := newStoreRun(prop, res, o, 9000)
	s.do(Op{K: "new", Mode: 3, Metric: 0, Dim: 2, Quant: 8})
	seen := map[uint64]bool{}
	id := uint64(1)
	for _, b := range boundaries {
		for _, n := range []uint64{b, b + 1} {
			if seen[n] || n > 3<<20 {
				continue
			}
			seen[n] = true
			s.do(Op{K: "add", ID: id, Vec: []float64{0.5, -0.5}, MetaLen: int(n), MetaSeed: int64(n), Why: "7code-boundary"})
			s.do(Op{K: "get", ID: id})
			s.do(Op{K: "upd", ID: id, MetaLen: 3, MetaSeed: 1})
			res.Hit("size:7code-boundary")
			id++
		}
	}
	s.do(Op{K: "reopen", Mode: 1})
	s.finish()
}
