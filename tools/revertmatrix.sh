#!/bin/bash
# usage: tools/revertmatrix.sh  — for every `fixed` entry of known_findings.json: take the fix back out of /repo's working
# tree (reverse-apply the non-test part of the fix commit), run the property's quick check, restore the tree. Prints
# caught (VIOLATION with a failing input) / weak (only no-failing-input-found) / MISSED / DOES-NOT-REVERT per entry.
cd /verif || exit 2
test -z "$(git -C /repo status --short)" || { echo "/repo working tree is not clean"; exit 2; }
python3 - <<'PY' > /tmp/revert_list.$$
import json
for e in json.load(open('/verif/known_findings.json')):
    if e['status']=='fixed': print(e['property'], e['commit'], e['signature'])
PY
while read prop commit sig; do
  git -C /repo show $commit -- . ':(exclude)*_test.go' > /tmp/revert.$$.diff
  if ! git -C /repo apply -R /tmp/revert.$$.diff 2>/dev/null; then
    if ! git -C /repo apply -R --3way /tmp/revert.$$.diff 2>/dev/null; then echo "$prop $commit $sig DOES-NOT-REVERT"; git -C /repo checkout -- . ; git -C /repo reset -q; continue; fi
    git -C /repo reset -q
  fi
  ( cd /repo && GOFLAGS=-mod=mod GOPROXY=off GOSUMDB=off go build ./... >/dev/null 2>&1 ) || { echo "$prop $commit $sig REVERTED-TREE-DOES-NOT-BUILD"; git -C /repo checkout -- . ; continue; }
  out=$(timeout 1500 ./check $prop 2>&1 | grep -E "^VIOLATION|tier=")
  git -C /repo checkout -- .
  if echo "$out" | grep "^VIOLATION property=$prop" | grep -vq "no-failing-input-found"; then r=caught
  elif echo "$out" | grep -q "^VIOLATION property=$prop"; then r=weak
  else r=MISSED; fi
  echo "$prop $commit $sig $r $(echo "$out" | grep tier= | sed 's/.*obligations/obligations/')"
done < /tmp/revert_list.$$
rm -f /tmp/revert_list.$$ /tmp/revert.$$.diff
find /verif/replays -name '*.json' -delete 2>/dev/null
# evidence written while a patch was applied describes the patched tree: put the committed files back
git -C /verif checkout -- evidence 2>/dev/null
