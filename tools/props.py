"""Per-property configuration of ./check: Lean modules holding the property theorems, regenerated-fact
tie groups (Syzgy/Instantiate/<group>.lean), and the correspondence runs per tier."""

TRUSTED_BASE = [
    "Lean 4.33.0 kernel (leanchecker re-check in the thorough tier); axioms allowed: propext, Classical.choice, Quot.sound",
    "tools/extract (go/ast fact extractor) and the hand-written expectations in lean/Syzgy/Instantiate/*.lean",
    "the Go correspondence harness (harness/) and its generators: differential testing, bounded by generator quality",
    "the model is hand-written (lean/Syzgy/Model); it is tied to /repo by regenerated facts and by the correspondence run of this check, not verified against the Go source text",
]

STORE_TRUST = [
    "hash/crc32.ChecksumIEEE = the model's bit-serial CRC-32 (checked on every span by the byte-exact file comparison)",
    "mmap / OS page cache: a store through the mapping persists once issued (msync is a no-op in the code)",
    "record length < 2^32 and fewer than 2^32 writes per file (length field / sequence number wrap)",
    "encoding/json for the options record",
]

QUERY_TRUST = [
    "encoding/json (metadata decode is total; the decoded value is what the model receives)",
    "regexp.MatchString (linear-time, panic-free; results enter the model as an oracle table)",
    "strconv.ParseFloat (validity and value of number literals enter the model as an oracle table)",
    "binary64 comparison of the Go runtime = Lean Float (driver only; theorems hold for every number type)",
]

SEARCH_TRUST = [
    "container/heap is a correct priority queue for the given Less (the model's queue is a sorted list; ties at the cut-off are unconstrained)",
    "distances are compared as float64; the model uses their bit patterns, order-isomorphic for non-negative non-NaN values (NaN-freedom is C06)",
    "the distance of each candidate is computed by the implementation's own distance function on the stored vector and passed to the model",
]

NUMERIC_TRUST = [
    "IEEE-754 binary64 arithmetic of the Go runtime on amd64 (no FMA); Lean Float = the same hardware doubles (driver)",
    "math.Acos (pure Go, not correctly rounded): the harness applies Go's Acos to the model's argument",
    "math.Round / float32 conversion semantics",
]

REST_TRUST = [
    "net/http: ServeMux routing and path cleaning, one goroutine per connection; encoding/json decodes request bodies into the handlers' struct types (the decoded value is what the model receives)",
    "the unmodified cmd binary built from /repo's working tree, started on a scratch data folder and a free port",
    "embedText/Ollama is unreachable offline: a text request is a 5xx with no state change",
]

PROPS = {
    "C01": dict(
        modules=["Syzgy.Props.C01"], ties=["Storage", "Ids"],
        runs={"quick": [["store-C01", "--scenarios", "10", "--ops", "300"]],
              "thorough": [["store-C01", "--scenarios", "40", "--ops", "3000"]]},
        trusted=STORE_TRUST,
        statement="refinement of Add/Update/Remove/Get/IDs/Count to a finite map over all histories",
        partial="proved (span-file level, unbounded): for every operation sequence of WriteRecord/RemoveRecord from any state satisfying the representation invariant, the invariant holds again and the stored streams are the fold of the map specification (C01.store_refines), ReadRecord answers the specification (read_is_spec), no step panics (step_total), a new file satisfies the invariant (new_file_is_rep); plus the 7-code and span round trips. Hypothesis FitsAll = the format's own limit (records and the grown file below 2^32 bytes; beyond it the 32-bit length field cannot describe a span). Collection layer: for every sequence of AddDocument/UpdateDocument/removeDocument the collection stands for the fold of the finite-map specification over (metadata bytes, quantization codes), GetDocument returns the specification's document (C01.documents_refine, get_document_is_spec, new_collection_is_empty, record_ids_distinct). GetAllIDs lists exactly the bound ids, ascending, each once, and GetDocumentCount is their number (ids_and_count_are_spec). Not proved here: the float<->code step (C12), the index side of the API (C05)",
    ),
    "C02": dict(
        modules=["Syzgy.Props.C02"], ties=["Storage"],
        runs={"quick": [["store-C02", "--scenarios", "10", "--ops", "250"]],
              "thorough": [["store-C02", "--scenarios", "40", "--ops", "2000"]]},
        trusted=STORE_TRUST,
        statement="open(file s) re-establishes the state for any options; reopen is a spec no-op",
        partial="proved: reopening (read-only or writable) any state reachable by any operation sequence changes no byte, re-establishes the representation invariant and yields the same store (C02.reopen_after_any_history); scanFile ∘ render reconstructs index/free map/sequence number for every well-formed segment list (any zero tail). Collection layer: NewCollection on the file left by any sequence of document operations (any keeping mode, any caller options) succeeds, changes no byte, keeps the creation options and answers GetDocument/GetAllIDs as the specification says (reopen_collection_after_any_history; rebuild_never_fails). created_collection_reopens_identically: from creation, after any history, reopening in any keeping mode with ANY caller options yields the creation options and the specification's documents — with the model's own decoder of the options record (options_record_round_trip: decodeOpts ∘ encodeOpts = id for names without a double quote), no oracle left. That encoding/json writes and reads the record as the model does is tied by byte-exact correspondence of the file (write side) and by the harness answering decode queries for records the model did not write (read side)",
    ),
    "C13": dict(
        modules=["Syzgy.Props.C13"], ties=["Query"],
        runs={"quick": [["query-C13", "--scenarios", "20000"]], "thorough": [["query-C13", "--scenarios", "300000"]]},
        trusted=QUERY_TRUST,
        statement="parse ∘ render = ast and eval ∘ ast = denote on well-typed inputs",
        partial="proved: eval(ast e) = denote e for all well-typed (e, doc), all number arithmetics and regex engines; EXISTS/DOES NOT EXIST = presence for all paths; the parser run on the canonical token sequence of any expression (parentheses only where precedence needs them) returns ast e and consumes every token (parser_builds_documented_tree), hence AND binds tighter than OR, chains associate to the left, end to end canonical_filter_is_denote. Text level (Lemmas/LexSpec.lean, ParseSim.lean): lexer_reads_spelled_tokens (NextToken on any sequence of lexable tokens written with arbitrary white space between them serves exactly those tokens, then EOF), the parser does not look at lexer positions (parseSrc_sim), hence text_parses_to_documented_tree / canonical_text_parses / filter_from_text_is_denote: BuildFilter's parse of any such spelling of an expression's canonical tokens is the documented tree, and the built filter accepts a well-typed document exactly when the expression is true. Tokens may also stand next to each other wherever the second cannot continue the first (FollowOK: user.name, tags[0], a==1; tight_text_parses). Parentheses the grammar does not need are part of the expression type (Expr.group: same tree, same meaning). Strings may be written between double quotes or — when they contain no ' — between single quotes, chosen per literal (tokTextQ; canonical_text_parses_either_quote). Not covered by theorems: hex and exponent number syntax, escapes other than the canonical ones — these stay tied by the three-way correspondence on rendered texts",
    ),
    "C14": dict(
        modules=["Syzgy.Props.C14"], ties=["Query"],
        runs={"quick": [["query-C14", "--scenarios", "40000"]], "thorough": [["query-C14", "--scenarios", "1000000"]]},
        trusted=QUERY_TRUST,
        statement="lexer, parser and evaluator never panic, for all byte strings",
        partial="proved: lexer and parser panic-freedom for every input; parser_terminates (the recursion driven by fuel 16*len+64 never runs out, for every text: lexer_makes_progress + a remaining-token measure through all eleven mutually recursive parser functions), so parse returns a tree or one of the parser's own errors; evaluator totality by construction; the answer is a function of (text, metadata) in the model, and the regenerated fact query_is_pure (imports, no package-level variables) ties that to the source. Not proved: the running time of the regexp engine and of strconv.ParseFloat (Go library code, behind oracles)",
    ),
    "C15": dict(
        modules=["Syzgy.Props.C15"], ties=["Query"],
        runs={"quick": [["query-C15", "--scenarios", "15000"]], "thorough": [["query-C15", "--scenarios", "300000"]]},
        trusted=QUERY_TRUST,
        statement="accepted ⇒ all tokens consumed; a condition after `null` is taken into account",
        partial="proved: acceptance only at EOF for every token source; the null literal is consumed (null_then_and: a condition after 'x == null' counts); expression_then_junk_is_rejected: for EVERY expression e (canonical tokens, any depth) followed by any token that is not AND/OR/comparison/EOF and any further tokens, the parse is refused with 'unexpected token after expression'. text_then_junk_is_rejected: the same for any spelling of those tokens as text (white space between tokens, or none where they cannot run together; lexer included)",
    ),
    "C03": dict(
        modules=["Syzgy.Props.C03"], ties=["Search"],
        runs={"quick": [["search-C03", "--scenarios", "150"]], "thorough": [["search-C03", "--scenarios", "1500"]]},
        trusted=SEARCH_TRUST,
        statement="bounded max-heap scan = K smallest / all within radius, any visiting order; on a collection representing store D (any history): result = min(K,m) nearest accepted live documents of D with true distances",
        partial="proved: exact_knn / exact_radius for every candidate list and visiting order; exact_search_on_collection / exact_radius_on_collection / exact_search_after_any_history: on every collection state reached by any history of document operations, with the index map visited in any order, any distance function of the stored codes and any filter, the result is the min(K,m) nearest accepted live documents of the abstract store, sorted, duplicate-free, each with its true distance and current metadata passing the filter. exact_scan_visits_every_document: the exact scan considers exactly GetDocumentCount candidates (so pointsSearched/numRecords = 1). The float distance itself is C06; that the float division gives exactly 100 is checked on the implementation (direct oracle)",
    ),
    "C16": dict(
        modules=["Syzgy.Props.C16"], ties=["Search"],
        runs={"quick": [["search-C16", "--scenarios", "120"]], "thorough": [["search-C16", "--scenarios", "1200"]]},
        trusted=SEARCH_TRUST + ["sort.Strings orders the decimal id strings (fixed order independent of offset/limit)"],
        statement="page = take lim ∘ drop off of the filtered sorted listing; on a collection representing store D the full listing is every accepted live document of D exactly once",
        partial="proved: page_is_slice, pages_tile, page_infix for every item list; collection_listing: on every collection state reached by any history, with the keys visited in any order that is a function of the key set, the full listing is exactly the accepted live ids (each once) and every page is its slice. That sort.Strings is such a function is Go library behaviour (trusted); the order actually used is observed by the harness (order-agnostic oracles)",
    ),
    "C04": dict(
        modules=["Syzgy.Props.C04"], ties=["Search"],
        runs={"quick": [["lsh-C04", "--scenarios", "20", "--ops", "120"]], "thorough": [["lsh-C04", "--scenarios", "100", "--ops", "500"]]},
        trusted=SEARCH_TRUST + ["the node priority queue of the model is a transliteration of container/heap (up/down); hyperplane distances and sides for the query are supplied by the implementation's distanceToHyperplane"],
        statement="soundness of LSH search for every forest and oracle; non-empty and single-leaf = exact under C05",
        partial="proved for every forest, oracle, search_k and K: lsh_sound; knn_finds_something (every listed id live + some listed document passes the filter => non-empty result; the proof's hypothesis 'hyperplane distance <= initial radius' exposed a defect, fixed in /repo 93c5d62, and is now discharged by the regenerated fact that the traversal starts with +Inf); single_leaf_equals_exact (one leaf per tree => the result is the exact scan over a leaf's order, and exact answers have order-independent distances); small_collection_has_single_leaves (any history during which the collection never holds more than the leaf threshold keeps every tree a single leaf listing exactly the live ids — the hypothesis of the former); node_queue_is_a_multiset. The same is checked by direct oracles on the implementation and by exact correspondence of the traversal (result distances and pointsSearched) with the Lean search. NaN distances are outside the Nat-encoded model (the harness skips them; C06 proves distances are not NaN)",
    ),
    "C05": dict(
        modules=["Syzgy.Props.C05", "Syzgy.Props.C05Real"], ties=["Search"],
        runs={"quick": [["lsh-C05", "--scenarios", "20", "--ops", "160"]], "thorough": [["lsh-C05", "--scenarios", "120", "--ops", "600"]]},
        trusted=SEARCH_TRUST + ["distanceToHyperplane is a deterministic function of (vector, hyperplane): the side oracle of the model is a function"],
        statement="forest ids = live ids invariant, all histories, all oracles",
        partial="proved: index_after_any_history / index_history_from — for EVERY sequence of AddDocument (new or overwrite), UpdateDocument and removal (down to empty and up again), from the empty index or from any state satisfying the invariant (the rebuilt index after reopen: rebuild), each tree lists exactly the live ids, each once, routed by the stored vectors; the call order this models is regenerated from the source (index_glue); index_after_reopen — the index rebuilt by NewCollection (any iteration order) satisfies the invariant again (rebuild loop and the single forest behind c.index / c.lshTree regenerated: index_rebuild). proved: TreeInv preserved by every operation; covering_radius_complete (every listed document within the radius and passing the filter is returned, for every forest, under the geometric hypothesis FarSound or hyperplane-within-radius); the geometric hypothesis itself for the Euclidean metric over the reals (C05.far_side_geometry, Mathlib). Gap: binary64 rounding of the geometry (the harness enlarges the covering radius by 1e-7 relative); the cosine 'distance to hyperplane' is not a geometric distance, only its bound 0.5 <= radius 1 is used. Checked on the implementation after every operation (direct oracle)",
    ),
    "C06": dict(
        modules=["Syzgy.Props.C06", "Syzgy.Props.C06Real"], ties=["Numeric"],
        runs={"quick": [["numeric-C06", "--scenarios", "60000"]], "thorough": [["numeric-C06", "--scenarios", "600000"]]},
        trusted=NUMERIC_TRUST,
        statement="metric laws for every arithmetic satisfying the IEEE laws + over ℝ",
        partial="the exact laws (symmetry, zero self-distance, non-negativity, cosine in [0,1], never NaN) are proved for every arithmetic satisfying explicitly listed IEEE facts; triangle inequality, scale invariance and opposite=1 are proved in exact real arithmetic; the forward error bound linking binary64 to ℝ is not proved (checked with tolerance on the implementation)",
    ),
    "C12": dict(
        modules=["Syzgy.Props.C12"], ties=["Numeric"],
        runs={"quick": [["numeric-C12"]], "thorough": [["numeric-C12"]]},
        trusted=NUMERIC_TRUST,
        statement="quantizer contract (exact and IEEE), bit-packing round trip incl. odd dims",
        partial="nearest level / error bound / clamp / monotone / idempotent are proved for the model's quantizer in exact rational arithmetic; under binary64 they are checked exhaustively on all 2^b codes and breakpoint neighbours (b<=16) bit-for-bit against the model; b=32/64 are conversions checked on the implementation",
    ),
    "C07": dict(
        modules=["Syzgy.Props.C07"], ties=["Storage"],
        runs={"quick": [["store-C07", "--scenarios", "8", "--ops", "150"]],
              "thorough": [["store-C07", "--scenarios", "24", "--ops", "250"]]},
        trusted=STORE_TRUST + ["crash model of the property: a store through the shared mapping persists once issued; granularity = one storage call"],
        statement="recovery from every crash image re-establishes the full invariant; affected document old-or-new",
        partial="proved (unbounded): for every operation sequence from a state satisfying the invariants and every crash image of the next WriteRecord (after grow / writeAt / markFreed; fresh id or overwrite; reuse or growth) or RemoveRecord, a writable open succeeds, the recovered state satisfies the representation invariant (well-formed chain, no id active twice, exact index and free map) and stands for the store before or after the operation (C07.crash_at_any_step_of_any_write, crash_during_write, crash_during_remove, recovery_keeps_newer, new_file_invariants). Hypotheses: the format's 32-bit limits and no wrap of the 32-bit sequence counter. Crash granularity = one storage call (the property's crash model); a torn write inside one writeAt is outside it. The same at the document level (Lemmas/CrashColl.lean): crash_during_any_document_operation / crash_after_any_document_history — every crash image of AddDocument, UpdateDocument or a removal, in every state reachable from a new collection, reopens through NewCollection (header read, options, index rebuild over every record) as a collection with the creation options representing the store before or after the operation; recovered_collection_continues — continuing with any operations and reopening again follows the specification from the recovered store, so no older version comes back; new_collection_invariants discharges the hypotheses for histories starting with creation. json.Unmarshal of the header is an oracle parameter (dec). The Collection layer is additionally tied by correspondence at every storage-step boundary (plus continuation and second reopen)",
    ),
    "C09": dict(
        modules=["Syzgy.Props.C09"], ties=["Storage"],
        runs={"quick": [["store-C09", "--scenarios", "10", "--ops", "300"]],
              "thorough": [["store-C09", "--scenarios", "40", "--ops", "3000"]]},
        trusted=STORE_TRUST,
        statement="chain grammar + free map = maximal free runs; growth ⇔ no run fits",
        partial="proved (unbounded, every operation sequence): the file is a gap-free chain of well-formed segments, no id is active twice and the free map equals the maximal FREE runs of the file, canonical with exact coverage (C09.chain_and_free_map_invariant); a write replaces a block of FREE segments by the new span (+ padding or one FREE remainder) of the same size or appends when nothing fits (write_places_span, grows_iff_nothing_fits); markFree/getFreeRange specs. The same is evaluated on the implementation's bytes by an independent grammar walker after every operation. Reuse of freed space (Lemmas/Reuse.lean): write_into_free_region_does_not_grow (any state), superseded_space_is_reused / removed_space_is_reused (after an overwrite or a removal, the next write of any record no longer than the released span does not grow the file), so rewriting a document with content of the same size alternates between two places and can grow the file again only when the record itself gets longer (sequence number crossing a 7-bit length boundary: four times in 2^32 writes). A closed-form bound on the file size for arbitrary mixed workloads is not stated (it depends on first-fit fragmentation); the growth oracle of the harness monitors it",
    ),
    "C08": dict(
        modules=["Syzgy.Props.C08"], ties=["Storage"],
        runs={"quick": [["faults-C08", "--scenarios", "3"]], "thorough": [["faults-C08", "--scenarios", "15"]]},
        trusted=STORE_TRUST + ["fault model: bursts are contiguous in CRC bit order (least significant bit of each byte first); 2^-32 collisions of unrelated data are outside any checksum's reach"],
        statement="CRC-32 linearity, burst and field detection; scan under body faults; two proved negatives",
        partial="proved: checksum = bit-serial CRC-32; linearity; every <=32-bit burst inside the covered bytes and every change confined to the checksum field is detected; ReadRecord re-verifies; bad magic is an error; payload_damage_loses_only_that_record (a span with intact magic/length and failing checksum is stepped over: that record is 'not found', every other record reads back exactly what was written, nothing is fabricated, in every open mode) and payload_burst_is_damage (every <=32-bit burst behind the 8-byte header produces such an image). Proved negative: the 4-byte straddle burst 61d8|f4ee is undetected for every span (known finding). Header faults (magic/length/FREE headers) are covered by fault enumeration + model correspondence only; the forged-span construction shows they cannot be a theorem without a header checksum (known finding)",
    ),
    "C20": dict(
        modules=["Syzgy.Props.C20", "Syzgy.Props.C20Quant"], ties=["Numeric"], tie_namespaces=["Dump"],
        runs={"quick": [["dump-C20", "--scenarios", "250"]], "thorough": [["dump-C20", "--scenarios", "4000"]]},
        trusted=NUMERIC_TRUST + ["strconv.FormatFloat(v,'g',-1,64) / encoding/json number parsing round-trip every float64 (parse ∘ fmt = id)",
                                 "encoding/json preserves JSON equality of metadata (Unmarshal ∘ Marshal, SetEscapeHTML(false), RawMessage)"],
        statement="round trip given parse ∘ fmt = id on stored components; %f survives b <= 16 only",
        partial="the record-level round-trip theorem has parse∘fmt=id and quantizer idempotence as hypotheses; roundtrip_quantized (Props/C20Quant.lean) discharges the second with C12's theorem for the model's own quantizeF/dequantizeF at exact arithmetic, every width b > 0 and all in-range codes, leaving only parse∘fmt=id (Go's shortest round-trip printing); import_of_export_is_the_same_store lifts it to collections: the records ExportJSON walks, re-added to a new collection with the same options, represent the same abstract store (same ids, metadata bytes, codes); import_record ties the record ImportJSON decodes and the id format; that the export text is valid JSON for every JSON metadata value and that the streaming importer reads it back is checked on the implementation only",
    ),
    "C10": dict(
        modules=["Syzgy.Props.C10"], ties=["Lock"], race=True,
        runs={"quick": [["conc-C10", "--scenarios", "18"]], "thorough": [["conc-C10", "--scenarios", "150"]]},
        trusted=["sync.RWMutex implements the modelled semantics (writer preference: a pending Lock blocks new RLocks); the Go memory model; the race detector observes the executed schedules only",
                 "the lock table is extracted syntactically (Lock/RLock/Unlock/RUnlock on the mutex field, deferred releases moved to the end, calls to listed methods inlined); closures passed as callbacks are not followed",
                 "porcupine v1.3.0 (linearizability checker) and the finite-map sequential specification of C01 used as its model"],
        statement="lock-hierarchy deadlock freedom, mutual exclusion, linearizability of lock-wrapped calls (every interleaving = serial run in acquisition order), fan-out race freedom; any thread count",
        partial="proved: deadlock freedom and mutual exclusion of the lock protocol for any number of threads and any disciplined programs; the regenerated programs of the public methods are disciplined (decide). linearizable / linearizable_at_every_moment / serial_order_extends_real_time (Lemmas/Linearize.lean): for every thread count, every program of calls and every interleaving at micro-step granularity under reader/writer exclusion, the execution equals the serial execution of the calls in lock-acquisition order (same final state, same result for every call, program order kept, real-time order extended). That the public methods have the shape this machine assumes is regenerated from the source: one_critical_section (Lock/RLock first, release deferred) and readers_do_not_write (no write rooted at the receiver in any function running under the read lock). Not modelled: the Go memory model below the lock (the race detector runs in the harness), and sync.RWMutex itself is trusted to exclude. Recorded concurrent histories are additionally checked with porcupine. Data-race freedom of the fan-out goroutines rests on two regenerated facts (synchronised random source, one goroutine per tree) and the race detector",
    ),
    "C11": dict(
        modules=["Syzgy.Props.C11"], ties=["Snapshot"],
        runs={"quick": [["snapshot-C11", "--scenarios", "40"]], "thorough": [["snapshot-C11", "--scenarios", "600"]]},
        trusted=["page faults on unmapped memory and the race detector's blindness to mapped memory are runtime facts; the model represents them as 'view of a dead generation'",
                 "the provenance table (which API field is a copy) is tied to the source by the statement shapes of getDocument and of the listing branch (regenerated facts) and by the pointer-in-mapping test at return time",
                 "decodeVector allocates a fresh slice (make) for every returned vector"],
        statement="every returned value has provenance copy ⇒ stable; inputs are not retained",
        partial="'inputs not retained': the regenerated fact caller_slices_not_retained lists every statement of AddDocument / UpdateDocument / WriteRecord that touches the caller's slices (a length check, local literals, encodeDocument, serializeSpan — nothing that stores them), and the harness mutates the caller's slices after the call; the model records provenance of results",
    ),
    "C17": dict(
        modules=["Syzgy.Props.C17"], ties=["Rest"],
        runs={"quick": [["rest-C17", "--scenarios", "12", "--ops", "120"]], "thorough": [["rest-C17", "--scenarios", "120", "--ops", "400"]]},
        trusted=REST_TRUST,
        statement="REST refinement, frame, restart = identity, status classes",
        partial="the REST model is the specification; proved: insert_binds_records / update_changes_one_document / delete_removes_one_document (the handlers' effect on a collection's metadata map is the C01 specification: bind, rebind one, unbind one; not-live ids are 404 and change nothing), frame (one collection per request), unknown collection = 404, create = 201, restart is the identity given C02; over whole sessions (Lemmas/RestSession.lean): restart_anywhere_in_a_session (serving qs1, restarting, serving qs2 = serving qs1 ++ qs2) session_state_depends_on_accepted_requests_only and frame_over_a_session (a session of n requests changes at most n collections). The refinement 'real server = model' is the request-by-request correspondence (status + canonical payload incl. listings after kill -9/restart), not a theorem; vector-search result lists are compared by status only (their content is C03/C04)",
    ),
    "C18": dict(
        modules=["Syzgy.Props.C18"], ties=["Rest"],
        runs={"quick": [["rest-C18", "--scenarios", "1500"]], "thorough": [["rest-C18", "--scenarios", "30000"]]},
        trusted=REST_TRUST + ["a panicking handler makes net/http drop the connection (the transport outcome the harness observes)"],
        statement="handler never panics; status >= 300 ⇒ state unchanged; constructor validates; lifted to every session of requests: every request of every session is answered (one response per request), requests answered >= 300 can be erased from any session without changing the final state or any other answer",
    ),
    "C19": dict(
        modules=["Syzgy.Props.C19"], ties=["Rest"],
        runs={"quick": [["rest-C19", "--scenarios", "400"]], "thorough": [["rest-C19", "--scenarios", "6000"]]},
        trusted=REST_TRUST + ["filepath.Join/Clean are lexical (modelled on path components); http.ServeMux redirects non-canonical paths (a decoded '/' changes the segment split, '..' segments never reach a handler)"],
        statement="accepted names stay inside the folder (lexical Join/Clean)",
    ),
}
