"""Per-property configuration of ./check: Lean modules holding the property theorems, regenerated-fact
tie groups (Syzgy/Instantiate/<group>.lean), and the correspondence runs per tier."""

TRUSTED_BASE = [
    "Lean 4.33.0 kernel (leanchecker re-check in the thorough tier); axioms allowed: propext, Classical.choice, Quot.sound",
    "tools/extract (go/ast fact extractor) and the hand-written expectations in lean/Syzgy/Instantiate/*.lean",
    "the Go correspondence harness (harness/) and its generators: differential testing, bounded by generator quality",
    "the model is hand-written (lean/Syzgy/Model); it is tied to /repo by regenerated facts and by the correspondence run of this check, not verified against the Go source text",
]

STORE_TRUST = [
    "hash/crc32.ChecksumIEEE = the model's bit-serial CRC-32 (checked on every span by the byte-exact file comparison)",
    "mmap / OS page cache: a store through the mapping persists once issued (msync is a no-op in the code)",
    "record length < 2^32 and fewer than 2^32 writes per file (length field / sequence number wrap)",
    "encoding/json for the options record",
]

PROPS = {
    "C01": dict(
        modules=["Syzgy.Props.C01"], ties=["Storage"],
        runs={"quick": [["store-C01", "--scenarios", "10", "--ops", "300"]],
              "thorough": [["store-C01", "--scenarios", "40", "--ops", "3000"]]},
        trusted=STORE_TRUST,
        statement="refinement of Add/Update/Remove/Get/IDs/Count to a finite map over all histories",
        partial="proved so far: 7-code and span serialize/parse round trips for all inputs; the history-level refinement is tied by byte-exact correspondence + spec oracle on the implementation",
    ),
    "C02": dict(
        modules=["Syzgy.Props.C02"], ties=["Storage"],
        runs={"quick": [["store-C02", "--scenarios", "10", "--ops", "250"]],
              "thorough": [["store-C02", "--scenarios", "40", "--ops", "2000"]]},
        trusted=STORE_TRUST,
        statement="open(file s) re-establishes the state for any options; reopen is a spec no-op",
        partial="proved: scanFile ∘ render reconstructs index/free map/sequence number for every well-formed segment list (any zero tail)",
    ),
}
