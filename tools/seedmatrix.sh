#!/bin/bash
# usage: tools/seedmatrix.sh [name-glob]   — re-applies every kept seeded change to /repo, runs the quick check of the
# property it breaks, undoes it, and prints one line per seed: caught (VIOLATION with a failing input) / weak (only
# no-failing-input-found) / MISSED. Needs a clean /repo working tree.
cd /verif || exit 2
test -z "$(git -C /repo status --short)" || { echo "/repo working tree is not clean"; exit 2; }
for d in seeded/${1:-*}/; do
  name=$(basename $d)
  prop=$(python3 -c "import json;print(json.load(open('$d/meta.json'))['breaks_property'])")
  git -C /repo apply /verif/$d/patch.diff 2>/dev/null || { echo "$name $prop PATCH-DOES-NOT-APPLY"; continue; }
  out=$(timeout 1500 ./check $prop 2>&1 | grep -E "^VIOLATION|tier=")
  git -C /repo checkout -- .
  if echo "$out" | grep "^VIOLATION property=$prop" | grep -vq "no-failing-input-found"; then r=caught
  elif echo "$out" | grep -q "^VIOLATION property=$prop"; then r=weak
  else r=MISSED; fi
  echo "$name $prop $r $(echo "$out" | grep tier= | sed 's/.*obligations/obligations/')"
done
find /verif/replays -name '*.json' -delete 2>/dev/null
# evidence written while a patch was applied describes the patched tree: put the committed files back
git -C /verif checkout -- evidence 2>/dev/null
