// extract regenerates Syzgy/Generated/Facts.lean from /repo's current source.
//
// It is a fact extractor, not a full translator: each fact is found by syntactic
// shape with go/ast; when the source no longer has the shape a fact expects, the
// fact is emitted as `none`/empty and listed under `missing`, which the proof side
// turns into a failed obligation (never a silent default).
package main

import (
	"crypto/sha256"
	"fmt"
	"go/ast"
	"go/parser"
	"go/printer"
	"go/token"
	"os"
	"path/filepath"
	"sort"
	"strconv"
	"strings"
)

var fset = token.NewFileSet()
var files = map[string]*ast.File{}
var missing []string
var out strings.Builder

func load(repo, rel string) {
	f, err := parser.ParseFile(fset, filepath.Join(repo, rel), nil, parser.SkipObjectResolution)
	if err != nil {
		fmt.Fprintf(os.Stderr, "extract: %v\n", err)
		os.Exit(2)
	}
	files[rel] = f
}

func funcDecl(file, name string) *ast.FuncDecl {
	for _, d := range files[file].Decls {
		if fd, ok := d.(*ast.FuncDecl); ok && fd.Name.Name == name {
			return fd
		}
	}
	return nil
}

func method(file, recv, name string) *ast.FuncDecl {
	for _, d := range files[file].Decls {
		fd, ok := d.(*ast.FuncDecl)
		if !ok || fd.Name.Name != name || fd.Recv == nil || len(fd.Recv.List) != 1 {
			continue
		}
		t := fd.Recv.List[0].Type
		if s, ok := t.(*ast.StarExpr); ok {
			t = s.X
		}
		if id, ok := t.(*ast.Ident); ok && id.Name == recv {
			return fd
		}
	}
	return nil
}

func src(n ast.Node) string {
	var b strings.Builder
	printer.Fprint(&b, fset, n)
	return b.String()
}

func intLit(e ast.Expr) (uint64, bool) {
	if p, ok := e.(*ast.ParenExpr); ok {
		return intLit(p.X)
	}
	bl, ok := e.(*ast.BasicLit)
	if !ok || bl.Kind != token.INT {
		return 0, false
	}
	v, err := strconv.ParseUint(bl.Value, 0, 64)
	return v, err == nil
}

func constValue(file, name string) (uint64, bool) {
	for _, d := range files[file].Decls {
		gd, ok := d.(*ast.GenDecl)
		if !ok || gd.Tok != token.CONST {
			continue
		}
		for _, sp := range gd.Specs {
			vs := sp.(*ast.ValueSpec)
			for i, n := range vs.Names {
				if n.Name == name && i < len(vs.Values) {
					return intLit(vs.Values[i])
				}
			}
		}
	}
	return 0, false
}

func emitNat(name string, v uint64, ok bool) {
	if !ok {
		missing = append(missing, name)
		fmt.Fprintf(&out, "def %s : Option Nat := none\n", name)
		return
	}
	fmt.Fprintf(&out, "def %s : Option Nat := some %d\n", name, v)
}

func emitNatList(name string, vs []uint64, ok bool) {
	if !ok {
		missing = append(missing, name)
		fmt.Fprintf(&out, "def %s : Option (List Nat) := none\n", name)
		return
	}
	s := make([]string, len(vs))
	for i, v := range vs {
		s[i] = strconv.FormatUint(v, 10)
	}
	fmt.Fprintf(&out, "def %s : Option (List Nat) := some [%s]\n", name, strings.Join(s, ", "))
}

func emitStrList(name string, vs []string, ok bool) {
	if !ok {
		missing = append(missing, name)
		fmt.Fprintf(&out, "def %s : Option (List String) := none\n", name)
		return
	}
	s := make([]string, len(vs))
	for i, v := range vs {
		s[i] = strconv.Quote(v)
	}
	fmt.Fprintf(&out, "def %s : Option (List String) := some [%s]\n", name, strings.Join(s, ", "))
}

func emitStr(name string, v string, ok bool) {
	if !ok {
		missing = append(missing, name)
		fmt.Fprintf(&out, "def %s : Option String := none\n", name)
		return
	}
	fmt.Fprintf(&out, "def %s : Option String := some %s\n", name, strconv.Quote(v))
}

// `n < LIT` bounds of an if/else-if chain or an expression-less switch, in order.
func lessBounds(fd *ast.FuncDecl, varName string) ([]uint64, bool) {
	if fd == nil {
		return nil, false
	}
	var bounds []uint64
	ok := true
	cond := func(e ast.Expr) {
		be, isBin := e.(*ast.BinaryExpr)
		if !isBin || be.Op != token.LSS {
			ok = false
			return
		}
		if id, isID := be.X.(*ast.Ident); !isID || id.Name != varName {
			ok = false
			return
		}
		v, isLit := intLit(be.Y)
		if !isLit {
			ok = false
			return
		}
		bounds = append(bounds, v)
	}
	for _, st := range fd.Body.List {
		switch s := st.(type) {
		case *ast.IfStmt:
			for cur := s; cur != nil; {
				cond(cur.Cond)
				if next, isIf := cur.Else.(*ast.IfStmt); isIf {
					cur = next
				} else {
					cur = nil
				}
			}
		case *ast.SwitchStmt:
			if s.Tag != nil {
				ok = false
			}
			for _, c := range s.Body.List {
				cc := c.(*ast.CaseClause)
				if len(cc.List) == 1 {
					cond(cc.List[0])
				}
			}
		}
	}
	return bounds, ok && len(bounds) > 0
}

// number of append(buf, …) statements in each branch of write7Code's if-chain
func write7Counts(fd *ast.FuncDecl) ([]uint64, bool) {
	if fd == nil {
		return nil, false
	}
	var counts []uint64
	count := func(b *ast.BlockStmt) uint64 {
		n := uint64(0)
		for _, st := range b.List {
			as, ok := st.(*ast.AssignStmt)
			if !ok || len(as.Rhs) != 1 {
				continue
			}
			if c, ok := as.Rhs[0].(*ast.CallExpr); ok {
				if id, ok := c.Fun.(*ast.Ident); ok && id.Name == "append" {
					n++
				}
			}
		}
		return n
	}
	for _, st := range fd.Body.List {
		if s, ok := st.(*ast.IfStmt); ok {
			for cur := s; cur != nil; {
				counts = append(counts, count(cur.Body))
				switch e := cur.Else.(type) {
				case *ast.IfStmt:
					cur = e
				case *ast.BlockStmt:
					counts = append(counts, count(e))
					cur = nil
				default:
					cur = nil
				}
			}
		}
	}
	return counts, len(counts) > 0
}

// return values (integer literals) of lengthOf7Code's switch cases, in order
func switchReturns(fd *ast.FuncDecl) ([]uint64, bool) {
	if fd == nil {
		return nil, false
	}
	var rets []uint64
	for _, st := range fd.Body.List {
		if s, ok := st.(*ast.SwitchStmt); ok {
			for _, c := range s.Body.List {
				cc := c.(*ast.CaseClause)
				if len(cc.Body) == 1 {
					if r, ok := cc.Body[0].(*ast.ReturnStmt); ok && len(r.Results) == 1 {
						if v, ok := intLit(r.Results[0]); ok {
							rets = append(rets, v)
							continue
						}
					}
				}
				return nil, false
			}
		}
	}
	return rets, len(rets) > 0
}

// findCall returns the first call to a function/method with the given name inside n.
func findCalls(n ast.Node, name string) []*ast.CallExpr {
	var res []*ast.CallExpr
	ast.Inspect(n, func(x ast.Node) bool {
		if c, ok := x.(*ast.CallExpr); ok {
			switch f := c.Fun.(type) {
			case *ast.Ident:
				if f.Name == name {
					res = append(res, c)
				}
			case *ast.SelectorExpr:
				if f.Sel.Name == name {
					res = append(res, c)
				}
			}
		}
		return true
	})
	return res
}

// order of the storage-level calls inside a function body (by source position)
func callOrder(fd *ast.FuncDecl, names []string) ([]string, bool) {
	if fd == nil {
		return nil, false
	}
	type hit struct {
		pos  token.Pos
		name string
	}
	var hits []hit
	for _, n := range names {
		for _, c := range findCalls(fd.Body, n) {
			hits = append(hits, hit{c.Pos(), n})
		}
	}
	sort.Slice(hits, func(i, j int) bool { return hits[i].pos < hits[j].pos })
	res := make([]string, len(hits))
	for i, h := range hits {
		res[i] = h.name
	}
	return res, len(res) > 0
}

// lock program of a method: ordered Lock/RLock/Unlock/RUnlock on the given mutex field,
// `defer` releases moved to the end, plus calls to other methods of the same receiver.
func lockProgram(fd *ast.FuncDecl, mutex string, callees map[string]bool) ([]string, bool) {
	if fd == nil {
		return nil, false
	}
	var prog, deferred []string
	var walk func(n ast.Node, inDefer bool)
	walk = func(n ast.Node, inDefer bool) {
		ast.Inspect(n, func(x ast.Node) bool {
			switch s := x.(type) {
			case *ast.FuncLit:
				return false // closures run later / elsewhere (callbacks of the same critical section)
			case *ast.DeferStmt:
				if sel, ok := s.Call.Fun.(*ast.SelectorExpr); ok {
					if inner, ok := sel.X.(*ast.SelectorExpr); ok && inner.Sel.Name == mutex {
						deferred = append([]string{sel.Sel.Name}, deferred...)
					}
				}
				return false
			case *ast.CallExpr:
				if sel, ok := s.Fun.(*ast.SelectorExpr); ok {
					if inner, ok := sel.X.(*ast.SelectorExpr); ok && inner.Sel.Name == mutex {
						prog = append(prog, sel.Sel.Name)
					} else if id, ok := sel.X.(*ast.Ident); ok && fd.Recv != nil && len(fd.Recv.List[0].Names) == 1 &&
						id.Name == fd.Recv.List[0].Names[0].Name && callees[sel.Sel.Name] {
						prog = append(prog, "call:"+sel.Sel.Name)
					} else if inner, ok := sel.X.(*ast.SelectorExpr); ok && callees[inner.Sel.Name+"."+sel.Sel.Name] {
						prog = append(prog, "call:"+inner.Sel.Name+"."+sel.Sel.Name)
					}
				}
			}
			return true
		})
	}
	walk(fd.Body, false)
	return append(prog, deferred...), true
}

func hashOf(fd *ast.FuncDecl) string {
	if fd == nil {
		return "absent"
	}
	saved := fd.Doc
	fd.Doc = nil
	s := src(fd)
	fd.Doc = saved
	h := sha256.Sum256([]byte(s))
	return fmt.Sprintf("%x", h[:8])
}

func main() {
	repo := "/repo"
	outPath := ""
	if len(os.Args) > 1 {
		repo = os.Args[1]
	}
	if len(os.Args) > 2 {
		outPath = os.Args[2]
	}
	for _, f := range []string{"spanfile.go", "freemap.go", "collection.go", "lshtree.go", "quantization.go", "dump.go", "rest.go", "main.go", "settings.go",
		"query/lexer.go", "query/parser.go", "query/compiler.go", "query/query.go"} {
		load(repo, f)
	}
	out.WriteString("/-! GENERATED by tools/extract from /repo's working tree — do not edit. -/\nnamespace Syzgy.Facts\n\n")

	// --- spanfile.go constants
	v, ok := constValue("spanfile.go", "activeMagic")
	emitNat("activeMagic", v, ok)
	v, ok = constValue("spanfile.go", "freeMagic")
	emitNat("freeMagic", v, ok)
	v, ok = constValue("spanfile.go", "minSpanLength")
	emitNat("minSpanLength", v, ok)

	// --- 7-code tables
	b, ok := lessBounds(funcDecl("spanfile.go", "write7Code"), "n")
	emitNatList("write7Bounds", b, ok)
	c, ok := write7Counts(funcDecl("spanfile.go", "write7Code"))
	emitNatList("write7Counts", c, ok)
	b, ok = lessBounds(funcDecl("spanfile.go", "lengthOf7Code"), "n")
	emitNatList("length7Bounds", b, ok)
	c, ok = switchReturns(funcDecl("spanfile.go", "lengthOf7Code"))
	emitNatList("length7Returns", c, ok)

	// --- growth rule: max(4096, size, int(float64(currentLength)*0.05))
	{
		fd := method("spanfile.go", "SpanFile", "allocateSpan")
		okg := false
		var quantum uint64
		factor := ""
		if fd != nil {
			for _, call := range findCalls(fd.Body, "max") {
				if len(call.Args) == 3 {
					if q, ok := intLit(call.Args[0]); ok {
						if id, ok := call.Args[1].(*ast.Ident); ok && id.Name == "size" {
							s := src(call.Args[2])
							if strings.HasPrefix(s, "int(float64(currentLength) * ") && strings.HasSuffix(s, ")") {
								factor = strings.TrimSuffix(strings.TrimPrefix(s, "int(float64(currentLength) * "), ")")
								quantum = q
								okg = true
							}
						}
					}
				}
			}
		}
		emitNat("growthQuantum", quantum, okg)
		emitStr("growthFactor", factor, okg)
	}

	// --- remainder rule comparisons in WriteRecord
	{
		fd := method("spanfile.go", "SpanFile", "WriteRecord")
		var conds []string
		if fd != nil {
			ast.Inspect(fd.Body, func(x ast.Node) bool {
				if s, ok := x.(*ast.IfStmt); ok {
					t := src(s.Cond)
					if strings.Contains(t, "remaining") {
						conds = append(conds, t)
					}
				}
				return true
			})
		}
		emitStrList("remainderConds", conds, len(conds) > 0)
		order, ok := callOrder(fd, []string{"allocateSpan", "writeAt", "markSpanAsFreed", "addFreeSpan"})
		emitStrList("writeRecordSteps", order, ok)
		fd = method("spanfile.go", "SpanFile", "RemoveRecord")
		order, ok = callOrder(fd, []string{"markSpanAsFreed", "addFreeSpan"})
		emitStrList("removeRecordSteps", order, ok)
	}

	// --- scanFile duplicate rule
	{
		fd := method("spanfile.go", "SpanFile", "scanFile")
		rule := ""
		if fd != nil {
			ast.Inspect(fd.Body, func(x ast.Node) bool {
				if s, ok := x.(*ast.IfStmt); ok {
					t := src(s.Cond)
					if strings.Contains(t, "existingSequence") {
						rule = t
					}
				}
				return true
			})
		}
		emitStr("scanDuplicateRule", rule, rule != "")
		usesChecksum := fd != nil && len(findCalls(fd.Body, "verifyChecksum")) > 0
		emitNat("scanVerifiesChecksum", map[bool]uint64{true: 1, false: 0}[usesChecksum], fd != nil)
	}

	// --- freemap comparisons
	{
		fd := method("freemap.go", "freeMap", "markFree")
		cond := ""
		if fd != nil {
			ast.Inspect(fd.Body, func(x ast.Node) bool {
				if s, ok := x.(*ast.IfStmt); ok {
					t := src(s.Cond)
					if strings.Contains(t, "merged") {
						cond = t
					}
				}
				return true
			})
		}
		emitStr("markFreeMergeCond", cond, cond != "")
		fd = method("freemap.go", "freeMap", "getFreeRange")
		cond = ""
		if fd != nil {
			ast.Inspect(fd.Body, func(x ast.Node) bool {
				if s, ok := x.(*ast.IfStmt); ok {
					t := src(s.Cond)
					if strings.Contains(t, "s.length") && cond == "" {
						cond = t
					}
				}
				return true
			})
		}
		emitStr("getFreeRangeFitCond", cond, cond != "")
	}

	// --- collection.go: LSH parameters, consider structure, listing branch order
	{
		fd := funcDecl("collection.go", "NewCollection")
		var thr, trees uint64
		okp := false
		if fd != nil {
			for _, call := range findCalls(fd.Body, "newLSHTree") {
				if len(call.Args) == 3 {
					a, ok1 := intLit(call.Args[1])
					b, ok2 := intLit(call.Args[2])
					if ok1 && ok2 {
						thr, trees, okp = a, b, true
					}
				}
			}
		}
		emitNat("lshThreshold", thr, okp)
		emitNat("lshTrees", trees, okp)
		sk, oks := uint64(0), false
		if fs := method("lshtree.go", "lshTree", "search"); fs != nil {
			ast.Inspect(fs.Body, func(x ast.Node) bool {
				if vs, ok := x.(*ast.ValueSpec); ok && len(vs.Names) == 1 && vs.Names[0].Name == "search_k" && len(vs.Values) == 1 {
					sk, oks = intLit(vs.Values[0])
				}
				return true
			})
		}
		emitNat("searchK", sk, oks)
		// the radius a K-nearest search starts with, and the pruning test of the traversal
		initRad, okr := "", false
		if fs := method("collection.go", "Collection", "Search"); fs != nil {
			ast.Inspect(fs.Body, func(x ast.Node) bool {
				if as, ok := x.(*ast.AssignStmt); ok && as.Tok == token.DEFINE && len(as.Lhs) == 1 && len(as.Rhs) == 1 {
					if id, ok := as.Lhs[0].(*ast.Ident); ok && id.Name == "radius" {
						initRad, okr = src(as.Rhs[0]), true
					}
				}
				return true
			})
		}
		emitStr("lshInitialRadius", initRad, okr)
		prune, okp2 := "", false
		if fs := method("lshtree.go", "lshTree", "search"); fs != nil {
			ast.Inspect(fs.Body, func(x ast.Node) bool {
				if is, ok := x.(*ast.IfStmt); ok && strings.Contains(src(is.Cond), "item.priority") && !okp2 {
					prune, okp2 = src(is.Cond), true
				}
				return true
			})
		}
		emitStr("lshPruneCondition", prune, okp2)
		// signal enum
		var sig []string
		for _, d := range files["collection.go"].Decls {
			if gd, ok := d.(*ast.GenDecl); ok && gd.Tok == token.CONST {
				for _, sp := range gd.Specs {
					vs := sp.(*ast.ValueSpec)
					if len(vs.Names) > 0 && vs.Names[0].Name == "StopSearch" {
						for _, sp2 := range gd.Specs {
							sig = append(sig, sp2.(*ast.ValueSpec).Names[0].Name)
						}
					}
				}
			}
		}
		emitStrList("signalEnum", sig, len(sig) > 0)
		// heap Less directions
		less := func(file, recv string) (string, bool) {
			m := method(file, recv, "Less")
			if m == nil || len(m.Body.List) != 1 {
				return "", false
			}
			r, ok := m.Body.List[0].(*ast.ReturnStmt)
			if !ok {
				return "", false
			}
			return src(r.Results[0]), true
		}
		s, ok := less("collection.go", "resultPriorityQueue")
		emitStr("resultLess", s, ok)
		s, ok = less("lshtree.go", "nodePriorityQueue")
		emitStr("nodeLess", s, ok)
		// consider: the if-chain conditions in order
		var conds []string
		if fs := method("collection.go", "Collection", "Search"); fs != nil {
			ast.Inspect(fs.Body, func(x ast.Node) bool {
				if as, ok := x.(*ast.AssignStmt); ok && len(as.Lhs) == 1 {
					if id, ok := as.Lhs[0].(*ast.Ident); ok && id.Name == "consider" {
						ast.Inspect(as.Rhs[0], func(y ast.Node) bool {
							if s, ok := y.(*ast.IfStmt); ok {
								conds = append(conds, src(s.Cond))
							}
							return true
						})
						return false
					}
				}
				return true
			})
			emitStrList("considerConds", conds, len(conds) > 0)
			// listing callback conditions in order
			var lconds []string
			for _, call := range findCalls(fs.Body, "IterateSortedRecords") {
				if len(call.Args) == 1 {
					ast.Inspect(call.Args[0], func(y ast.Node) bool {
						if s, ok := y.(*ast.IfStmt); ok {
							lconds = append(lconds, src(s.Cond))
						}
						return true
					})
				}
			}
			emitStrList("listingConds", lconds, len(lconds) > 0)
		} else {
			emitStrList("considerConds", nil, false)
			emitStrList("listingConds", nil, false)
		}
	}

	// --- quantization.go expression shapes
	{
		fd := funcDecl("quantization.go", "quantize")
		var rets []string
		if fd != nil {
			ast.Inspect(fd.Body, func(x ast.Node) bool {
				switch s := x.(type) {
				case *ast.ReturnStmt:
					rets = append(rets, src(s.Results[0]))
				case *ast.AssignStmt:
					rets = append(rets, src(s))
				case *ast.IfStmt:
					rets = append(rets, "if "+src(s.Cond))
				}
				return true
			})
		}
		emitStrList("quantizeShape", rets, len(rets) > 0)
		fd = funcDecl("quantization.go", "dequantize")
		rets = nil
		if fd != nil {
			ast.Inspect(fd.Body, func(x ast.Node) bool {
				switch s := x.(type) {
				case *ast.ReturnStmt:
					rets = append(rets, src(s.Results[0]))
				case *ast.AssignStmt:
					rets = append(rets, src(s))
				}
				return true
			})
		}
		emitStrList("dequantizeShape", rets, len(rets) > 0)
		// getVectorSize table
		fd = funcDecl("collection.go", "getVectorSize")
		var tbl []string
		if fd != nil {
			ast.Inspect(fd.Body, func(x ast.Node) bool {
				if cc, ok := x.(*ast.CaseClause); ok && len(cc.List) == 1 && len(cc.Body) == 1 {
					if r, ok := cc.Body[0].(*ast.ReturnStmt); ok {
						tbl = append(tbl, src(cc.List[0])+" => "+src(r.Results[0]))
					}
				}
				return true
			})
		}
		emitStrList("vectorSizeTable", tbl, len(tbl) > 0)
	}

	// --- provenance of returned values (C11): how getDocument and the listing branch build Metadata
	{
		var stmts []string
		if fd := method("collection.go", "Collection", "getDocument"); fd != nil {
			for _, st := range fd.Body.List {
				if _, isIf := st.(*ast.IfStmt); isIf {
					continue
				}
				stmts = append(stmts, strings.Join(strings.Fields(src(st)), " "))
			}
		}
		emitStrList("getDocumentBody", stmts, len(stmts) > 0)
		var lst []string
		if fs := method("collection.go", "Collection", "Search"); fs != nil {
			for _, call := range findCalls(fs.Body, "IterateSortedRecords") {
				if len(call.Args) == 1 {
					if fl, ok := call.Args[0].(*ast.FuncLit); ok {
						for _, st := range fl.Body.List {
							t := strings.Join(strings.Fields(src(st)), " ")
							if strings.Contains(t, "etadata") && !strings.HasPrefix(t, "if ") {
								lst = append(lst, t)
							}
						}
					}
				}
			}
		}
		emitStrList("listingMetadataStmts", lst, len(lst) > 0)
	}

	// --- the caller's slices (C11, second clause): every statement of the mutators that mentions a parameter slice, and every
	// statement of WriteRecord that mentions the streams it is handed — none stores them in the collection or the span file
	{
		uses := func(file, recv, name string, params []string) []string {
			var out []string
			fd := method(file, recv, name)
			if fd == nil {
				return nil
			}
			want := map[string]bool{}
			for _, p := range params {
				want[p] = true
			}
			for _, st := range fd.Body.List {
				hit := false
				ast.Inspect(st, func(x ast.Node) bool {
					if id, ok := x.(*ast.Ident); ok && want[id.Name] {
						hit = true
					}
					return true
				})
				if hit {
					t := strings.Join(strings.Fields(src(st)), " ")
					if len(t) > 160 {
						t = t[:160]
					}
					out = append(out, name+": "+t)
				}
			}
			return out
		}
		var all []string
		all = append(all, uses("collection.go", "Collection", "AddDocument", []string{"vector", "metadata", "doc", "dataStreams"})...)
		all = append(all, uses("collection.go", "Collection", "UpdateDocument", []string{"newMetadata", "dataStreams"})...)
		all = append(all, uses("spanfile.go", "SpanFile", "WriteRecord", []string{"dataStreams", "span"})...)
		emitStrList("callerSliceUses", all, len(all) > 0)
	}

	// --- the caller's slices are not modified (C11, second clause): which functions of the package write through a
	// slice parameter, where those are called and with what, and what Search does with the query vector
	{
		norm := func(n ast.Node) string { return strings.Join(strings.Fields(src(n)), " ") }
		rootFiles := []string{"collection.go", "lshtree.go", "spanfile.go", "freemap.go", "quantization.go", "dump.go", "rest.go"}
		writers := map[string]bool{}
		var wl []string
		for _, fn := range rootFiles {
			for _, d := range files[fn].Decls {
				fd, ok := d.(*ast.FuncDecl)
				if !ok || fd.Body == nil {
					continue
				}
				params := map[string]bool{}
				for _, f := range fd.Type.Params.List {
					if at, ok := f.Type.(*ast.ArrayType); ok && at.Len == nil {
						for _, n := range f.Names {
							params[n.Name] = true
						}
					}
				}
				if len(params) == 0 {
					continue
				}
				hit := map[string]bool{}
				target := func(e ast.Expr) {
					for {
						switch x := e.(type) {
						case *ast.IndexExpr:
							e = x.X
							continue
						case *ast.SliceExpr:
							e = x.X
							continue
						case *ast.ParenExpr:
							e = x.X
							continue
						}
						break
					}
					if id, ok := e.(*ast.Ident); ok && params[id.Name] {
						hit[id.Name] = true
					}
				}
				ast.Inspect(fd.Body, func(x ast.Node) bool {
					switch st := x.(type) {
					case *ast.AssignStmt:
						for _, l := range st.Lhs {
							if _, ok := l.(*ast.Ident); !ok {
								target(l)
							}
						}
					case *ast.IncDecStmt:
						if _, ok := st.X.(*ast.Ident); !ok {
							target(st.X)
						}
					case *ast.CallExpr:
						if id, ok := st.Fun.(*ast.Ident); ok && id.Name == "copy" && len(st.Args) == 2 {
							target(st.Args[0])
						}
						if se, ok := st.Fun.(*ast.SelectorExpr); ok && strings.HasPrefix(se.Sel.Name, "Put") && len(st.Args) >= 1 {
							target(st.Args[0]) // binary.BigEndian.PutUint32(p[i:], …)
						}
					}
					return true
				})
				var hs []string
				for h := range hit {
					hs = append(hs, h)
				}
				sort.Strings(hs)
				for _, h := range hs {
					wl = append(wl, fd.Name.Name+":"+h)
					writers[fd.Name.Name] = true
				}
			}
		}
		sort.Strings(wl)
		emitStrList("paramSliceWriters", wl, true)
		var calls []string
		for _, fn := range rootFiles {
			for _, d := range files[fn].Decls {
				fd, ok := d.(*ast.FuncDecl)
				if !ok || fd.Body == nil {
					continue
				}
				ast.Inspect(fd.Body, func(x ast.Node) bool {
					if c, ok := x.(*ast.CallExpr); ok {
						name := ""
						switch f := c.Fun.(type) {
						case *ast.Ident:
							name = f.Name
						case *ast.SelectorExpr:
							name = f.Sel.Name
						}
						if writers[name] {
							calls = append(calls, fd.Name.Name+": "+norm(c))
						}
					}
					return true
				})
			}
		}
		sort.Strings(calls)
		emitStrList("sliceWriterCalls", calls, true)
		var qv []string
		if fs := method("collection.go", "Collection", "Search"); fs != nil {
			var walk func(list []ast.Stmt)
			mentions := func(n ast.Node) bool {
				hit := false
				ast.Inspect(n, func(x ast.Node) bool {
					if se, ok := x.(*ast.SelectorExpr); ok && se.Sel.Name == "Vector" {
						if id, ok := se.X.(*ast.Ident); ok && id.Name == "args" {
							hit = true
						}
					}
					return true
				})
				return hit
			}
			walk = func(list []ast.Stmt) {
				for _, st := range list {
					if !mentions(st) {
						continue
					}
					inner := false
					ast.Inspect(st, func(x ast.Node) bool {
						if x == st {
							return true
						}
						switch b := x.(type) {
						case *ast.BlockStmt:
							if mentions(b) {
								inner = true
								walk(b.List)
							}
							return false
						case *ast.FuncLit:
							if mentions(b.Body) {
								inner = true
								walk(b.Body.List)
							}
							return false
						}
						return true
					})
					if !inner {
						qv = append(qv, norm(st))
					}
				}
			}
			walk(fs.Body.List)
			// the whole argument struct handed to anything else would carry the slice along
			ast.Inspect(fs.Body, func(x ast.Node) bool {
				if c, ok := x.(*ast.CallExpr); ok {
					for _, a := range c.Args {
						if id, ok := a.(*ast.Ident); ok && id.Name == "args" {
							qv = append(qv, "args passed whole: "+norm(c))
						}
					}
				}
				return true
			})
		}
		emitStrList("searchVectorUses", qv, len(qv) > 0)
	}

	// --- the glue between Search and the document store (C03/C16 collection-level theorems):
	// what `consider` reads, what the exact scan and the listing make of an index entry
	{
		norm := func(n ast.Node) string { return strings.Join(strings.Fields(src(n)), " ") }
		var glue, scan, lid, iter []string
		if fs := method("collection.go", "Collection", "Search"); fs != nil {
			ast.Inspect(fs.Body, func(x ast.Node) bool {
				if as, ok := x.(*ast.AssignStmt); ok && len(as.Lhs) == 1 {
					if id, ok := as.Lhs[0].(*ast.Ident); ok && id.Name == "consider" {
						if fl, ok := as.Rhs[0].(*ast.FuncLit); ok {
							for _, st := range fl.Body.List {
								switch st.(type) {
								case *ast.AssignStmt, *ast.IncDecStmt:
									glue = append(glue, norm(st))
								}
							}
							seen := map[string]bool{}
							ast.Inspect(fl.Body, func(y ast.Node) bool {
								if cl, ok := y.(*ast.CompositeLit); ok {
									if t, ok := cl.Type.(*ast.Ident); ok && t.Name == "SearchResult" {
										if t := norm(cl); !seen[t] {
											seen[t] = true
											glue = append(glue, t)
										}
									}
								}
								return true
							})
						}
						return false
					}
				}
				return true
			})
			for _, call := range findCalls(fs.Body, "IterateRecords") {
				if len(call.Args) == 1 {
					if fl, ok := call.Args[0].(*ast.FuncLit); ok {
						for _, st := range fl.Body.List {
							scan = append(scan, norm(st))
						}
					}
				}
			}
			for _, call := range findCalls(fs.Body, "IterateSortedRecords") {
				if len(call.Args) == 1 {
					if fl, ok := call.Args[0].(*ast.FuncLit); ok {
						for _, st := range fl.Body.List {
							if t := norm(st); strings.Contains(t, "ParseUint") {
								lid = append(lid, t)
							}
						}
					}
				}
			}
		}
		for _, name := range []string{"IterateRecords", "IterateSortedRecords"} {
			if fd := method("spanfile.go", "SpanFile", name); fd != nil {
				ast.Inspect(fd.Body, func(x ast.Node) bool {
					switch st := x.(type) {
					case *ast.IfStmt:
						if c := norm(st.Cond); strings.Contains(c, "recordID") {
							iter = append(iter, name+": if "+c)
						}
					case *ast.RangeStmt:
						iter = append(iter, name+": range "+norm(st.X))
					case *ast.ExprStmt:
						if c := norm(st); strings.HasPrefix(c, "sort.") {
							iter = append(iter, name+": "+c)
						}
					}
					return true
				})
			}
		}
		emitStrList("considerGlue", glue, len(glue) > 0)
		emitStrList("exactScanBody", scan, len(scan) > 0)
		emitStrList("listingIdStmt", lid, len(lid) > 0)
		emitStrList("iterateShape", iter, len(iter) > 0)
	}

	// --- the glue between the document operations and the ANN index (C05 history theorem):
	// which index and storage calls each operation makes, in source order, with the index arguments
	{
		var glue []string
		names := map[string]bool{"getDocument": true, "removePoint": true, "addPoint": true,
			"WriteRecord": true, "RemoveRecord": true, "ReadRecord": true}
		for _, mname := range []string{"AddDocument", "UpdateDocument", "removeDocument"} {
			fd := method("collection.go", "Collection", mname)
			if fd == nil {
				continue
			}
			type hit struct {
				pos token.Pos
				txt string
			}
			var hits []hit
			ast.Inspect(fd.Body, func(x ast.Node) bool {
				if c, ok := x.(*ast.CallExpr); ok {
					if f, ok := c.Fun.(*ast.SelectorExpr); ok && names[f.Sel.Name] {
						t := f.Sel.Name
						if t == "removePoint" || t == "addPoint" {
							var as []string
							for _, a := range c.Args {
								as = append(as, strings.Join(strings.Fields(src(a)), " "))
							}
							t += "(" + strings.Join(as, ", ") + ")"
						}
						hits = append(hits, hit{c.Pos(), t})
					}
				}
				return true
			})
			sort.Slice(hits, func(i, j int) bool { return hits[i].pos < hits[j].pos })
			var ts []string
			for _, h := range hits {
				ts = append(ts, h.txt)
			}
			glue = append(glue, mname+": "+strings.Join(ts, "; "))
		}
		emitStrList("indexGlue", glue, len(glue) > 0)
		// the index rebuild of NewCollection: the callback handed to IterateRecords, statement by statement,
		// and the two fields the one new forest is stored in (Search walks c.index, the mutators use c.lshTree)
		var rebuild, fields []string
		if fd := funcDecl("collection.go", "NewCollection"); fd != nil {
			for _, call := range findCalls(fd.Body, "IterateRecords") {
				if len(call.Args) == 1 {
					if fl, ok := call.Args[0].(*ast.FuncLit); ok {
						for _, st := range fl.Body.List {
							rebuild = append(rebuild, strings.Join(strings.Fields(src(st)), " "))
						}
					}
				}
			}
			ast.Inspect(fd.Body, func(x ast.Node) bool {
				if as, ok := x.(*ast.AssignStmt); ok && len(as.Lhs) == 1 {
					t := strings.Join(strings.Fields(src(as)), " ")
					if strings.HasPrefix(t, "c.index =") || strings.HasPrefix(t, "c.lshTree =") || strings.HasPrefix(t, "lshTree :=") {
						fields = append(fields, t)
					}
				}
				return true
			})
		}
		emitStrList("rebuildBody", rebuild, len(rebuild) > 0)
		emitStrList("indexFields", fields, len(fields) > 0)
		// no other function re-assigns the index fields
		var reassigned []string
		for fname, f := range files {
			if strings.HasSuffix(fname, "_test.go") || f == nil {
				continue
			}
			for _, d := range f.Decls {
				fd, ok := d.(*ast.FuncDecl)
				if !ok || fd.Body == nil || fd.Name.Name == "NewCollection" {
					continue
				}
				ast.Inspect(fd.Body, func(x ast.Node) bool {
					if as, ok := x.(*ast.AssignStmt); ok {
						for _, l := range as.Lhs {
							if se, ok := l.(*ast.SelectorExpr); ok && (se.Sel.Name == "index" || se.Sel.Name == "lshTree") {
								if id, ok := se.X.(*ast.Ident); ok && id.Name == "c" {
									reassigned = append(reassigned, fd.Name.Name+": "+strings.Join(strings.Fields(src(as)), " "))
								}
							}
						}
					}
					return true
				})
			}
		}
		sort.Strings(reassigned)
		emitStrList("indexReassigned", reassigned, true)
		// ids: how a document id becomes a record key (first argument of every record call in collection.go) and
		// how keys and path segments become ids again (every strconv parse in collection.go, rest.go, dump.go)
		var keyExprs, idParsers []string
		if f := files["collection.go"]; f != nil {
			for _, d := range f.Decls {
				fd, ok := d.(*ast.FuncDecl)
				if !ok || fd.Body == nil {
					continue
				}
				for _, nm := range []string{"ReadRecord", "WriteRecord", "RemoveRecord"} {
					for _, c := range findCalls(fd.Body, nm) {
						if len(c.Args) > 0 {
							keyExprs = append(keyExprs, fd.Name.Name+": "+nm+"("+strings.Join(strings.Fields(src(c.Args[0])), " ")+")")
						}
					}
				}
			}
		}
		for _, fname := range []string{"collection.go", "rest.go", "dump.go"} {
			f := files[fname]
			if f == nil {
				continue
			}
			for _, d := range f.Decls {
				fd, ok := d.(*ast.FuncDecl)
				if !ok || fd.Body == nil {
					continue
				}
				ast.Inspect(fd.Body, func(x ast.Node) bool {
					if c, ok := x.(*ast.CallExpr); ok {
						if se, ok := c.Fun.(*ast.SelectorExpr); ok {
							if pk, ok := se.X.(*ast.Ident); ok && pk.Name == "strconv" &&
								(strings.HasPrefix(se.Sel.Name, "Parse") || se.Sel.Name == "Atoi" || se.Sel.Name == "Itoa") {
								idParsers = append(idParsers, fname+":"+fd.Name.Name+": "+strings.Join(strings.Fields(src(c)), " "))
							}
						}
					}
					return true
				})
			}
		}
		sort.Strings(keyExprs)
		sort.Strings(idParsers)
		var getAll, restIds []string
		for _, p := range idParsers {
			if strings.HasPrefix(p, "collection.go:GetAllIDs:") {
				getAll = append(getAll, p)
			}
			if strings.HasPrefix(p, "rest.go:") && strings.Contains(p, "parts[") {
				restIds = append(restIds, p)
			}
		}
		emitStrList("recordKeyExprs", keyExprs, len(keyExprs) > 0)
		emitStrList("getAllIDsParser", getAll, len(getAll) > 0)
		emitStrList("restIdParsers", restIds, len(restIds) > 0)
	}

	// --- distance functions: statement shapes
	for _, name := range []string{"euclideanDistance", "angularDistance"} {
		fd := funcDecl("collection.go", name)
		var stmts []string
		if fd != nil {
			ast.Inspect(fd.Body, func(x ast.Node) bool {
				switch st := x.(type) {
				case *ast.AssignStmt:
					stmts = append(stmts, src(st))
				case *ast.IfStmt:
					stmts = append(stmts, "if "+src(st.Cond))
				case *ast.ReturnStmt:
					stmts = append(stmts, "return "+src(st.Results[0]))
				case *ast.RangeStmt:
					stmts = append(stmts, "range "+src(st.X))
				}
				return true
			})
		}
		emitStrList(name+"Shape", stmts, len(stmts) > 0)
	}

	// --- query: keyword table, comparison operators, parser call chain, operator cases
	{
		var kws []string
		if fd := funcDecl("query/lexer.go", "lookupIdentifier"); fd != nil {
			ast.Inspect(fd.Body, func(x ast.Node) bool {
				if cc, ok := x.(*ast.CaseClause); ok && len(cc.Body) == 1 {
					if r, ok := cc.Body[0].(*ast.ReturnStmt); ok {
						for _, e := range cc.List {
							if bl, ok := e.(*ast.BasicLit); ok {
								s, _ := strconv.Unquote(bl.Value)
								kws = append(kws, s+"=>"+src(r.Results[0]))
							}
						}
					}
				}
				return true
			})
		}
		emitStrList("keywords", kws, len(kws) > 0)
		var cmp []string
		if fd := method("query/parser.go", "Parser", "isComparisonOperator"); fd != nil {
			ast.Inspect(fd.Body, func(x ast.Node) bool {
				if be, ok := x.(*ast.BinaryExpr); ok && be.Op == token.EQL {
					if id, ok := be.Y.(*ast.Ident); ok {
						cmp = append(cmp, id.Name)
					}
				}
				return true
			})
		}
		emitStrList("comparisonTokens", cmp, len(cmp) > 0)
		chain := []string{}
		okc := true
		for _, pair := range [][2]string{{"Parse", "parseExpression"}, {"parseExpression", "parseOr"}, {"parseOr", "parseAnd"}, {"parseAnd", "parseComparison"}, {"parseComparison", "parseNot"}, {"parseNot", "parsePrimary"}} {
			fd := method("query/parser.go", "Parser", pair[0])
			if fd == nil || len(findCalls(fd.Body, pair[1])) == 0 {
				okc = false
			}
			chain = append(chain, pair[0]+"->"+pair[1])
		}
		emitStrList("parserChain", chain, okc)
		// does Parse check for end of input?
		eofChecked := false
		if fd := method("query/parser.go", "Parser", "Parse"); fd != nil {
			eofChecked = strings.Contains(src(fd.Body), "TokenEOF")
		}
		emitNat("parseChecksEOF", map[bool]uint64{true: 1, false: 0}[eofChecked], true)
		var ops []string
		if fd := funcDecl("query/compiler.go", "evaluateOperation"); fd != nil {
			for _, st := range fd.Body.List {
				if sw, ok := st.(*ast.SwitchStmt); ok {
					for _, c := range sw.Body.List {
						for _, e := range c.(*ast.CaseClause).List {
							if bl, ok := e.(*ast.BasicLit); ok {
								s, _ := strconv.Unquote(bl.Value)
								ops = append(ops, s)
							}
						}
					}
				}
			}
		}
		emitStrList("evalOperators", ops, len(ops) > 0)
		// every type assertion in the evaluator is the checked two-value form (or a type switch): an
		// unchecked x.(T) panics on the wrong dynamic type
		var unchecked []string
		for _, fn := range []string{"query/compiler.go", "query/query.go"} {
			f := files[fn]
			if f == nil {
				continue
			}
			checked := map[*ast.TypeAssertExpr]bool{}
			ast.Inspect(f, func(n ast.Node) bool {
				switch x := n.(type) {
				case *ast.AssignStmt:
					if len(x.Lhs) == 2 && len(x.Rhs) == 1 {
						if ta, ok := x.Rhs[0].(*ast.TypeAssertExpr); ok {
							checked[ta] = true
						}
					}
				case *ast.ValueSpec:
					if len(x.Names) == 2 && len(x.Values) == 1 {
						if ta, ok := x.Values[0].(*ast.TypeAssertExpr); ok {
							checked[ta] = true
						}
					}
				}
				return true
			})
			for _, d := range f.Decls {
				fd, ok := d.(*ast.FuncDecl)
				if !ok || fd.Body == nil {
					continue
				}
				ast.Inspect(fd.Body, func(n ast.Node) bool {
					if ta, ok := n.(*ast.TypeAssertExpr); ok && ta.Type != nil && !checked[ta] {
						unchecked = append(unchecked, fd.Name.Name+": "+src(ta))
					}
					return true
				})
			}
		}
		emitStrList("evalUncheckedAssertions", unchecked, files["query/compiler.go"] != nil)
		// purity of the filter package: what it imports, and that it has no package-level variables — a built
		// filter's answer can depend only on the filter text and the metadata (C14)
		var imps, globals []string
		seenImp := map[string]bool{}
		for fname, f := range files {
			if !strings.HasPrefix(fname, "query/") || strings.HasSuffix(fname, "_test.go") || f == nil {
				continue
			}
			for _, im := range f.Imports {
				if v := strings.Trim(im.Path.Value, "\""); !seenImp[v] {
					seenImp[v] = true
					imps = append(imps, v)
				}
			}
			for _, d := range f.Decls {
				if gd, ok := d.(*ast.GenDecl); ok && gd.Tok == token.VAR {
					for _, sp := range gd.Specs {
						if vs, ok := sp.(*ast.ValueSpec); ok {
							for _, n := range vs.Names {
								globals = append(globals, fname+":"+n.Name)
							}
						}
					}
				}
			}
		}
		sort.Strings(imps)
		sort.Strings(globals)
		emitStrList("queryImports", imps, len(imps) > 0)
		emitStrList("queryGlobals", globals, true)
	}

	// --- lock programs of Collection methods
	{
		names := []string{"GetDocumentCount", "ComputeStats", "GetOptions", "GetAllIDs", "computeAverageDistance", "Close",
			"AddDocument", "GetDocument", "getDocument", "UpdateDocument", "removeDocument", "Search"}
		callees := map[string]bool{}
		for _, n := range names {
			callees[n] = true
		}
		sfNames := []string{"WriteRecord", "RemoveRecord", "ReadRecord", "Close", "IterateRecords", "IterateSortedRecords", "GetStats"}
		for _, n := range sfNames {
			callees["spanfile."+n] = true
		}
		var progs []string
		okl := true
		for _, n := range names {
			fd := method("collection.go", "Collection", n)
			p, ok := lockProgram(fd, "mutex", callees)
			if !ok {
				okl = false
				continue
			}
			progs = append(progs, n+":"+strings.Join(p, ","))
		}
		for _, n := range sfNames {
			fd := method("spanfile.go", "SpanFile", n)
			p, ok := lockProgram(fd, "fileMutex", map[string]bool{})
			if !ok {
				okl = false
				continue
			}
			progs = append(progs, "spanfile."+n+":"+strings.Join(p, ","))
		}
		emitStrList("collectionLockPrograms", progs, okl)
		// the first two statements of every public method: the lock is taken before anything else and
		// released by a deferred call, so the whole body is one critical section (C10 linearizability)
		var heads []string
		for _, n := range []string{"GetDocumentCount", "ComputeStats", "GetOptions", "GetAllIDs", "Close",
			"AddDocument", "GetDocument", "UpdateDocument", "removeDocument", "Search"} {
			fd := method("collection.go", "Collection", n)
			if fd == nil || len(fd.Body.List) < 2 {
				heads = append(heads, n+": ?")
				continue
			}
			a := strings.Join(strings.Fields(src(fd.Body.List[0])), " ")
			b := strings.Join(strings.Fields(src(fd.Body.List[1])), " ")
			heads = append(heads, n+": "+a+"; "+b)
		}
		emitStrList("publicMethodHeads", heads, len(heads) > 0)
		// readers do not write: in every function that runs under the collection's read lock, no
		// assignment / inc-dec whose target is rooted at the receiver, and no call of a mutating method
		var rw []string
		rootOf := func(e ast.Expr) string {
			for {
				switch x := e.(type) {
				case *ast.SelectorExpr:
					e = x.X
				case *ast.IndexExpr:
					e = x.X
				case *ast.StarExpr:
					e = x.X
				case *ast.ParenExpr:
					e = x.X
				case *ast.SliceExpr:
					e = x.X
				case *ast.Ident:
					return x.Name
				default:
					return ""
				}
			}
		}
		mutators := map[string]bool{"WriteRecord": true, "RemoveRecord": true, "addPoint": true, "removePoint": true,
			"insert": true, "remove": true, "split": true, "writeAt": true, "markSpanAsFreed": true, "appendToFile": true,
			"allocateSpan": true, "addFreeSpan": true, "freeSuperseded": true, "Close": true, "scanFile": true}
		type rf struct{ file, recv, name string }
		readers := []rf{
			{"collection.go", "Collection", "GetDocumentCount"}, {"collection.go", "Collection", "ComputeStats"},
			{"collection.go", "Collection", "GetOptions"}, {"collection.go", "Collection", "GetAllIDs"},
			{"collection.go", "Collection", "computeAverageDistance"}, {"collection.go", "Collection", "GetDocument"},
			{"collection.go", "Collection", "getDocument"}, {"collection.go", "Collection", "Search"},
			{"spanfile.go", "SpanFile", "getSpanReader"}, {"spanfile.go", "SpanFile", "ReadRecord"},
			{"spanfile.go", "SpanFile", "IterateRecords"}, {"spanfile.go", "SpanFile", "IterateSortedRecords"},
			{"spanfile.go", "SpanFile", "GetStats"}, {"spanfile.go", "SpanReader", "getStream"},
			{"lshtree.go", "lshTree", "search"},
		}
		found := 0
		for _, r := range readers {
			fd := method(r.file, r.recv, r.name)
			if fd == nil || fd.Recv == nil || len(fd.Recv.List) == 0 || len(fd.Recv.List[0].Names) == 0 {
				continue
			}
			found++
			recv := fd.Recv.List[0].Names[0].Name
			// locals that name a part of the receiver (`visited := tree.visited`): a write through one of them is a
			// write to shared state all the same
			shared := map[string]bool{recv: true}
			for pass := 0; pass < 3; pass++ {
				ast.Inspect(fd.Body, func(x ast.Node) bool {
					if st, ok := x.(*ast.AssignStmt); ok && len(st.Lhs) == len(st.Rhs) {
						for i, l := range st.Lhs {
							id, isIdent := l.(*ast.Ident)
							if !isIdent || id.Name == "_" {
								continue
							}
							rhs := st.Rhs[i]
							if u, ok := rhs.(*ast.UnaryExpr); ok && u.Op == token.AND {
								rhs = u.X
							}
							switch rhs.(type) {
							case *ast.SelectorExpr, *ast.IndexExpr, *ast.SliceExpr, *ast.StarExpr, *ast.Ident:
								if _, same := rhs.(*ast.Ident); same && pass == 0 {
									continue
								}
								if shared[rootOf(rhs)] && rootOf(rhs) != "" {
									shared[id.Name] = true
								}
							}
						}
					}
					return true
				})
			}
			ast.Inspect(fd.Body, func(x ast.Node) bool {
				switch st := x.(type) {
				case *ast.AssignStmt:
					for _, l := range st.Lhs {
						if _, isIdent := l.(*ast.Ident); !isIdent && shared[rootOf(l)] {
							rw = append(rw, r.name+": "+strings.Join(strings.Fields(src(st)), " "))
						}
					}
				case *ast.IncDecStmt:
					if _, isIdent := st.X.(*ast.Ident); !isIdent && shared[rootOf(st.X)] {
						rw = append(rw, r.name+": "+strings.Join(strings.Fields(src(st)), " "))
					}
				case *ast.CallExpr:
					if f, ok := st.Fun.(*ast.SelectorExpr); ok && mutators[f.Sel.Name] && shared[rootOf(f.X)] {
						rw = append(rw, r.name+": call "+strings.Join(strings.Fields(src(st.Fun)), " "))
					}
					if f, ok := st.Fun.(*ast.Ident); ok && (f.Name == "clear" || f.Name == "delete") && len(st.Args) > 0 && shared[rootOf(st.Args[0])] {
						rw = append(rw, r.name+": "+strings.Join(strings.Fields(src(st)), " "))
					}
				}
				return true
			})
		}
		emitStrList("readerWrites", rw, found == len(readers))
		// the same table in numeric form: per method a list of (kind, lock, callee)
		// kind: 0 RLock, 1 Lock, 2 RUnlock, 3 Unlock, 4 call; lock: 0 Collection.mutex, 1 SpanFile.fileMutex
		{
			var mnames []string
			index := map[string]int{}
			for _, pr := range progs {
				n := pr[:strings.Index(pr, ":")]
				index[n] = len(mnames)
				mnames = append(mnames, n)
			}
			var rows []string
			for _, pr := range progs {
				n := pr[:strings.Index(pr, ":")]
				body := pr[strings.Index(pr, ":")+1:]
				lock := 0
				if strings.HasPrefix(n, "spanfile.") {
					lock = 1
				}
				var toks []string
				if body != "" {
					for _, t := range strings.Split(body, ",") {
						switch {
						case t == "RLock":
							toks = append(toks, fmt.Sprintf("(0, %d, 0)", lock))
						case t == "Lock":
							toks = append(toks, fmt.Sprintf("(1, %d, 0)", lock))
						case t == "RUnlock":
							toks = append(toks, fmt.Sprintf("(2, %d, 0)", lock))
						case t == "Unlock":
							toks = append(toks, fmt.Sprintf("(3, %d, 0)", lock))
						case strings.HasPrefix(t, "call:"):
							toks = append(toks, fmt.Sprintf("(4, 0, %d)", index[strings.TrimPrefix(t, "call:")]))
						}
					}
				}
				rows = append(rows, "["+strings.Join(toks, ", ")+"]")
			}
			emitStrList("lockMethodNames", mnames, okl)
			if okl {
				fmt.Fprintf(&out, "def lockTable : Option (List (List (Nat × Nat × Nat))) := some [%s]\n", strings.Join(rows, ", "))
			} else {
				fmt.Fprintf(&out, "def lockTable : Option (List (List (Nat × Nat × Nat))) := none\n")
			}
		}
		// does the tree's random source synchronise its methods?
		rndLocked := uint64(0)
		if fd := method("settings.go", "myRandomType", "Intn"); fd != nil && strings.Contains(src(fd.Body), "Lock()") {
			rndLocked = 1
		}
		emitNat("treeRandSynchronised", rndLocked, true)
		// shared random source in addPoint goroutines
		rnd := ""
		if fd := funcDecl("lshtree.go", "newLSHTree"); fd != nil {
			ast.Inspect(fd.Body, func(x ast.Node) bool {
				if kv, ok := x.(*ast.KeyValueExpr); ok {
					if id, ok := kv.Key.(*ast.Ident); ok && id.Name == "rand" {
						rnd = src(kv.Value)
					}
				}
				return true
			})
		}
		emitStr("treeRandSource", rnd, rnd != "")
		goCount := uint64(0)
		if fd := method("lshtree.go", "lshTree", "addPoint"); fd != nil {
			ast.Inspect(fd.Body, func(x ast.Node) bool {
				if _, ok := x.(*ast.GoStmt); ok {
					goCount++
				}
				return true
			})
		}
		emitNat("addPointGoStmts", goCount, true)
	}

	// --- rest.go / dump.go
	{
		e := ""
		if fd := method("rest.go", "Server", "collectionNameToFileName"); fd != nil && len(fd.Body.List) >= 1 {
			if r, ok := fd.Body.List[len(fd.Body.List)-1].(*ast.ReturnStmt); ok {
				e = src(r.Results[0])
			}
		}
		emitStr("nameToFile", e, e != "")
		verb := ""
		if fd := funcDecl("dump.go", "ExportJSON"); fd != nil {
			ast.Inspect(fd.Body, func(x ast.Node) bool {
				if rs, ok := x.(*ast.RangeStmt); ok && src(rs.X) == "vector" {
					verb = strings.TrimSpace(src(rs.Body))
				}
				return true
			})
		}
		emitStr("exportVectorLoop", verb, verb != "")
		// the record ImportJSON decodes and what it does with it; how ExportJSON prints the id
		var imp []string
		if fd := funcDecl("dump.go", "ImportJSON"); fd != nil {
			ast.Inspect(fd.Body, func(x ast.Node) bool {
				switch n := x.(type) {
				case *ast.StructType:
					for _, f := range n.Fields.List {
						nm := ""
						if len(f.Names) > 0 {
							nm = f.Names[0].Name
						}
						tag := ""
						if f.Tag != nil {
							tag = f.Tag.Value
						}
						imp = append(imp, "field "+nm+" "+strings.Join(strings.Fields(src(f.Type)), " ")+" "+tag)
					}
				case *ast.CallExpr:
					if se, ok := n.Fun.(*ast.SelectorExpr); ok && se.Sel.Name == "AddDocument" {
						imp = append(imp, strings.Join(strings.Fields(src(n)), " "))
					}
				}
				return true
			})
		}
		emitStrList("importRecord", imp, len(imp) > 0)
		var expID []string
		if fd := funcDecl("dump.go", "ExportJSON"); fd != nil {
			ast.Inspect(fd.Body, func(x ast.Node) bool {
				if c, ok := x.(*ast.CallExpr); ok {
					t := strings.Join(strings.Fields(src(c)), " ")
					if strings.Contains(t, "\\\"id\\\"") || strings.Contains(t, "doc.ID") || strings.Contains(t, ", id)") {
						expID = append(expID, t)
					}
				}
				return true
			})
		}
		emitStrList("exportIdStmts", expID, true)
	}

	// --- REST: route table of RunServer and the status codes of each handler, in source order
	{
		var routes []string
		if fd := funcDecl("main.go", "RunServer"); fd != nil {
			ast.Inspect(fd.Body, func(x ast.Node) bool {
				if s, ok := x.(*ast.IfStmt); ok {
					t := strings.Join(strings.Fields(src(s.Cond)), " ")
					if strings.Contains(t, "r.URL.Path") {
						if len(s.Body.List) == 1 {
							t += " => " + strings.Join(strings.Fields(src(s.Body.List[0])), " ")
						}
						routes = append(routes, t)
					}
				}
				return true
			})
			for _, call := range findCalls(fd.Body, "Handle") {
				if len(call.Args) >= 1 {
					routes = append(routes, "Handle "+src(call.Args[0]))
				}
			}
		}
		emitStrList("restRoutes", routes, len(routes) > 0)
		for _, h := range []string{"handleCollections", "handleCollection", "handleInsertRecord", "handleUpdateMetadata", "handleDeleteRecord", "handleSearchRecords"} {
			var codes []string
			if fd := method("rest.go", "Server", h); fd != nil {
				ast.Inspect(fd.Body, func(x ast.Node) bool {
					if sel, ok := x.(*ast.SelectorExpr); ok {
						if id, ok := sel.X.(*ast.Ident); ok && id.Name == "http" && strings.HasPrefix(sel.Sel.Name, "Status") {
							codes = append(codes, sel.Sel.Name)
						}
					}
					return true
				})
			}
			emitStrList("status_"+h, codes, len(codes) > 0)
		}
		v := ""
		if fd := funcDecl("rest.go", "validCollectionName"); fd != nil {
			v = strings.Join(strings.Fields(src(fd.Body)), " ")
		}
		emitStr("validCollectionName", v, v != "")
		created := false
		if fd := method("rest.go", "Server", "handleCollections"); fd != nil {
			created = strings.Contains(src(fd.Body), "validCollectionName(name)")
		}
		emitNat("createValidatesName", map[bool]uint64{true: 1, false: 0}[created], true)
		ctor := ""
		if fd := funcDecl("collection.go", "NewCollection"); fd != nil {
			ast.Inspect(fd.Body, func(x ast.Node) bool {
				if s, ok := x.(*ast.IfStmt); ok && strings.Join(strings.Fields(src(s.Cond)), " ") == "!fileExists" && ctor == "" {
					ctor = strings.Join(strings.Fields(src(s.Body)), " ")
				}
				return true
			})
		}
		emitStr("constructorValidation", ctor, ctor != "")
	}

	// --- fingerprints (advisory)
	{
		type fp struct{ file, recv, name string }
		var fps []string
		for _, f := range []fp{
			{"spanfile.go", "SpanFile", "WriteRecord"}, {"spanfile.go", "SpanFile", "RemoveRecord"}, {"spanfile.go", "SpanFile", "scanFile"},
			{"spanfile.go", "SpanFile", "allocateSpan"}, {"spanfile.go", "", "OpenFile"}, {"spanfile.go", "", "parseSpan"}, {"spanfile.go", "", "serializeSpan"},
			{"spanfile.go", "", "write7Code"}, {"spanfile.go", "", "read7Code"}, {"spanfile.go", "SpanReader", "getStream"},
			{"freemap.go", "freeMap", "markFree"}, {"freemap.go", "freeMap", "markUsed"}, {"freemap.go", "freeMap", "getFreeRange"},
			{"collection.go", "", "NewCollection"}, {"collection.go", "Collection", "AddDocument"}, {"collection.go", "Collection", "UpdateDocument"},
			{"collection.go", "Collection", "removeDocument"}, {"collection.go", "Collection", "getDocument"}, {"collection.go", "Collection", "Search"},
			{"collection.go", "", "encodeDocument"}, {"collection.go", "", "decodeVector"}, {"collection.go", "", "euclideanDistance"}, {"collection.go", "", "angularDistance"},
			{"lshtree.go", "lshTree", "insert"}, {"lshtree.go", "lshTree", "remove"}, {"lshtree.go", "lshTree", "split"}, {"lshtree.go", "lshTree", "search"},
			{"quantization.go", "", "quantize"}, {"quantization.go", "", "dequantize"},
			{"query/lexer.go", "Lexer", "NextToken"}, {"query/lexer.go", "Lexer", "readIdentifierOrKeyword"}, {"query/parser.go", "Parser", "parsePrimary"},
			{"query/compiler.go", "", "CompileExpression"}, {"query/compiler.go", "", "evaluateOperation"}, {"query/compiler.go", "", "evaluateFunction"},
			{"dump.go", "", "ExportJSON"}, {"dump.go", "", "ImportJSON"},
			{"rest.go", "Server", "handleCollections"}, {"rest.go", "Server", "handleInsertRecord"}, {"rest.go", "Server", "handleSearchRecords"},
		} {
			var fd *ast.FuncDecl
			if f.recv == "" {
				fd = funcDecl(f.file, f.name)
			} else {
				fd = method(f.file, f.recv, f.name)
			}
			fps = append(fps, f.file+":"+f.name+"="+hashOf(fd))
		}
		if len(os.Args) > 3 {
			os.WriteFile(os.Args[3], []byte(strings.Join(fps, "\n")+"\n"), 0644)
		}
	}

	emitStrList("missing", missing, true)
	out.WriteString("\nend Syzgy.Facts\n")
	if outPath == "" {
		fmt.Print(out.String())
		return
	}
	old, _ := os.ReadFile(outPath)
	if string(old) != out.String() {
		if err := os.WriteFile(outPath, []byte(out.String()), 0644); err != nil {
			fmt.Fprintf(os.Stderr, "extract: %v\n", err)
			os.Exit(2)
		}
	}
}
