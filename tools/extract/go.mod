module extract

go 1.21
