#!/bin/bash
# usage: tools/seedtest.sh <seed-name> <worktree> <demo-test-regex> <prop> [<prop>...]
# 1. confirms in the scratch worktree that the demo fails with the patch and passes without it and that
#    the existing suite passes with the patch; 2. applies the patch to /repo, runs the listed checks, undoes it.
set -u
export GOFLAGS=-mod=mod GOPROXY=off GOSUMDB=off GOTOOLCHAIN=local
name=$1; wt=$2; rx=$3; shift 3
out=/verif/seeded/$name; mkdir -p $out
cp $wt/SEED/patch.diff $out/patch.diff; cp $wt/SEED/demo_test.go $out/demo_test.go; cp $wt/SEED/NOTES.md $out/NOTES.md 2>/dev/null
cd $wt || exit 2
mv SEED /tmp/seed/SEED_$name.$$ 2>/dev/null
git checkout -q -- . ; git apply $out/patch.diff || { echo "patch does not apply in worktree"; exit 2; }
cp $out/demo_test.go ./zz_seed_demo_test.go
go test -vet=off -count=1 -run "$rx" . > /tmp/seed/with.$$ 2>&1; with=$?
rm -f zz_seed_demo_test.go
go test -vet=off -count=1 ./... > /tmp/seed/suite.$$ 2>&1; suite=$?
git checkout -q -- .
cp $out/demo_test.go ./zz_seed_demo_test.go
go test -vet=off -count=1 -run "$rx" . > /tmp/seed/without.$$ 2>&1; without=$?
rm -f zz_seed_demo_test.go
git apply $out/patch.diff
mv /tmp/seed/SEED_$name.$$ SEED 2>/dev/null
echo "demo with patch: exit $with (want != 0); demo without patch: exit $without (want 0); existing suite with patch: exit $suite (want 0)"
cd /verif
git -C /repo apply $out/patch.diff || { echo "patch does not apply to /repo"; exit 2; }
results=""
for p in "$@"; do
  o=$(./check $p 2>&1 | grep -E "VIOLATION|KNOWN|tier=" | head -5)
  echo "--- check $p on seeded tree:"; echo "$o"
  if echo "$o" | grep -q "^VIOLATION property=$p"; then results="$results $p:caught"; else results="$results $p:missed"; fi
  for r in $(echo "$o" | grep -o "replay=[^ ]*" | cut -d= -f2); do cp /verif/$r $out/ 2>/dev/null; done
done
git -C /repo checkout -- .
git -C /repo status --short | head -3
# evidence written while the patch was applied describes the seeded tree: put the committed files back
git -C /verif checkout -- evidence 2>/dev/null
echo "RESULT $name demo_with=$with demo_without=$without suite=$suite checks:$results"
rm -f /tmp/seed/with.$$ /tmp/seed/without.$$ /tmp/seed/suite.$$
